//! C13 — wire formats are the RFC 6330 layouts and round-trip losslessly.
use crate::common::*;
use crate::rfcref;
use raptorq::{EncodingPacket, ObjectTransmissionInformation as Oti, PayloadId};
use serde_json::{json, Map, Value};

fn check_pid_bytes(b: [u8; 4]) -> Result<(), String> {
    let p = PayloadId::deserialize(&b);
    let esi = ((b[1] as u32) * 65536) + ((b[2] as u32) * 256) + b[3] as u32;
    if p.source_block_number() != b[0] || p.encoding_symbol_id() != esi {
        return Err(format!("deserialize({:?}) -> sbn {} esi {} (want {} {})", b, p.source_block_number(), p.encoding_symbol_id(), b[0], esi));
    }
    let s = p.serialize();
    if s != b {
        return Err(format!("serialize(deserialize({:?})) = {:?}", b, s));
    }
    let q = PayloadId::new(b[0], esi);
    if q != p {
        return Err(format!("new({}, {}) != deserialize({:?})", b[0], esi, b));
    }
    let qs = q.serialize();
    if qs != rfcref::payload_id_bytes(b[0], esi) {
        return Err(format!("new({}, {}).serialize() = {:?} want {:?}", b[0], esi, qs, rfcref::payload_id_bytes(b[0], esi)));
    }
    Ok(())
}

fn check_packet(sbn: u8, esi: u32, len: usize) -> Result<(), String> {
    let data = data_lcg(esi as u64 ^ len as u64, len);
    let pkt = EncodingPacket::new(PayloadId::new(sbn, esi), data.clone());
    let ser = pkt.serialize();
    let mut want = rfcref::payload_id_bytes(sbn, esi).to_vec();
    want.extend_from_slice(&data);
    if ser != want {
        return Err(format!("packet({}, {}, len {}).serialize() differs from id||payload", sbn, esi, len));
    }
    let back = EncodingPacket::deserialize(&ser);
    if back != pkt || back.data() != &data[..] || back.payload_id().source_block_number() != sbn || back.payload_id().encoding_symbol_id() != esi {
        return Err(format!("deserialize(serialize(packet({}, {}, len {}))) differs", sbn, esi, len));
    }
    let (pid, payload) = back.split();
    if pid != PayloadId::new(sbn, esi) || payload != data {
        return Err(format!("split of packet({}, {}, len {}) differs", sbn, esi, len));
    }
    Ok(())
}

fn check_oti_bytes(b: [u8; 12]) -> Result<(), String> {
    let o = Oti::deserialize(&b);
    let f = ((b[0] as u64) << 32) | ((b[1] as u64) << 24) | ((b[2] as u64) << 16) | ((b[3] as u64) << 8) | b[4] as u64;
    let t = ((b[6] as u16) << 8) | b[7] as u16;
    let z = b[8];
    let n = ((b[9] as u16) << 8) | b[10] as u16;
    let al = b[11];
    if o.transfer_length() != f || o.symbol_size() != t || o.source_blocks() != z || o.sub_blocks() != n || o.symbol_alignment() != al {
        return Err(format!("deserialize({:?}) -> ({}, {}, {}, {}, {}) want ({}, {}, {}, {}, {})", b, o.transfer_length(), o.symbol_size(), o.source_blocks(), o.sub_blocks(), o.symbol_alignment(), f, t, z, n, al));
    }
    let s = o.serialize();
    let mut want = b;
    want[5] = 0;
    if s != want {
        return Err(format!("serialize(deserialize({:?})) = {:?}", b, s));
    }
    if Oti::deserialize(&s) != o {
        return Err(format!("deserialize(serialize(x)) != x for {:?}", b));
    }
    if s != rfcref::oti_bytes(f, t as u64, z as u64, n as u64, al as u64) {
        return Err(format!("serialize differs from reference layout for {:?}", b));
    }
    // valid values also through the constructor
    if t >= 1 && z >= 1 && al >= 1 && rfcref::oti_accept(f, t as u64, z as u64, n as u64, al as u64) {
        match guarded(|| Oti::new(f, t, z, n, al)) {
            Ok(c) => {
                if c != o || c.serialize() != want {
                    return Err(format!("new({}, {}, {}, {}, {}) differs from the deserialized value", f, t, z, n, al));
                }
            }
            Err(p) => return Err(format!("new({}, {}, {}, {}, {}) refused a valid configuration: {}", f, t, z, n, al, p)),
        }
    }
    Ok(())
}

pub fn replay(case: &Value) -> Result<(), String> {
    let b: Vec<u8> = case["bytes"].as_array().map(|a| a.iter().map(|x| x.as_u64().unwrap() as u8).collect()).unwrap_or_default();
    match case["kind"].as_str().unwrap_or("") {
        "pid" => check_pid_bytes([b[0], b[1], b[2], b[3]]),
        "oti" => {
            let mut a = [0u8; 12];
            a.copy_from_slice(&b);
            check_oti_bytes(a)
        }
        "packet" => check_packet(case["sbn"].as_u64().unwrap() as u8, case["esi"].as_u64().unwrap() as u32, case["len"].as_u64().unwrap() as usize),
        "pid_new_refuse" => {
            let esi = case["esi"].as_u64().unwrap() as u32;
            if guarded(|| PayloadId::new(0, esi)).is_ok() { Err(format!("PayloadId::new(0, {}) accepted a 25-bit ESI", esi)) } else { Ok(()) }
        }
        k => Err(format!("unknown kind {}", k)),
    }
}

pub fn run(ctx: &Ctx) -> i32 {
    let st = Stats::new();
    // ---- payload IDs
    // all 2^32 payload IDs in both tiers (about 2 s on 16 cores)
    let sbns: Vec<u8> = (0..=255).collect();
    let _ = ctx.quick();
    // work item = (sbn, high ESI byte)
    par_for(sbns.len() * 256, |w| {
        let sbn = sbns[w / 256];
        let b1 = (w % 256) as u8;
        let mut local_bad = 0u32;
        let mut nontriv = 0u64;
        for b2 in 0..=255u8 {
            for b3 in 0..=255u8 {
                if b1 != 0 && b2 != 0 && b3 != 0 && b1 != b2 && b2 != b3 && b1 != b3 {
                    nontriv += 1;
                }
                if let Err(m) = check_pid_bytes([sbn, b1, b2, b3]) {
                    local_bad += 1;
                    if local_bad < 4 {
                        st.violation(format!("pid:{}:{}:{}:{}", sbn, b1, b2, b3), m, json!({"kind":"pid","bytes":[sbn,b1,b2,b3]}));
                    }
                }
            }
        }
        st.eval(65536);
        // non-trivial: ids whose three ESI bytes are pairwise distinct and non-zero (byte order observable)
        st.nontriv(nontriv);
    });
    st.set_counter("payload_ids", sbns.len() as u64 * (1 << 24));
    // new() must refuse 25-bit ESIs
    for esi in [1u32 << 24, (1 << 24) + 1, u32::MAX] {
        st.eval(1);
        if guarded(|| PayloadId::new(0, esi)).is_ok() {
            st.violation(format!("pid_new:{}", esi), format!("PayloadId::new(0, {}) accepted", esi), json!({"kind":"pid_new_refuse","esi":esi}));
        }
    }
    // ---- packets
    let mut lens: Vec<usize> = (0..=300).collect();
    // around every power of two up to 2^17 (the payload length is not a wire field: nothing may narrow it)
    for sh in 9..=17 {
        for d in [-1i64, 0, 1] {
            lens.push(((1i64 << sh) + d) as usize);
        }
    }
    lens.push(100_000);
    let mut ids: Vec<(u8, u32)> = vec![];
    for &sbn in &[0u8, 1, 128, 255] {
        for &esi in &[0u32, 1, 255, 256, 257, 65535, 65536, 65537, 0x010203, 0x800000, 0xABCDEF, 0xFFFF00, 0xFFFFFE, 0xFFFFFF, 0x00FF00, 0xFF00FF] {
            ids.push((sbn, esi));
        }
    }
    par_for(lens.len(), |li| {
        for &(sbn, esi) in &ids {
            st.eval(1);
            st.nontriv(1);
            if let Err(m) = check_packet(sbn, esi, lens[li]) {
                st.violation(format!("packet:{}:{}:{}", sbn, esi, lens[li]), m, json!({"kind":"packet","sbn":sbn,"esi":esi,"len":lens[li]}));
            }
        }
    });
    st.set_counter("packets", (lens.len() * ids.len()) as u64);
    // ---- OTI: each field exhaustively over its width against three backgrounds
    let backgrounds: [[u8; 12]; 3] = [[0; 12], [0xFF; 12], [0xA5, 0x5A, 0xA5, 0x5A, 0xA5, 0x5A, 0xA5, 0x5A, 0xA5, 0x5A, 0xA5, 0x5A]];
    let oti_cases: std::sync::Mutex<Vec<[u8; 12]>> = std::sync::Mutex::new(vec![]);
    {
        let mut v = oti_cases.lock().unwrap();
        for bg in backgrounds.iter() {
            // F: every byte lane x 256, all 40 single bits, limits
            for lane in 0..5 {
                for x in 0..=255u8 { let mut b = *bg; b[lane] = x; v.push(b); }
            }
            for bit in 0..40 {
                let f: u64 = 1 << bit;
                let mut b = *bg;
                for lane in 0..5 { b[lane] = (f >> (8 * (4 - lane))) as u8; }
                v.push(b);
            }
            for f in [0u64, 1, 942574504275, 942574504276, (1 << 40) - 1, 56403, 56404, 1 << 32, (1 << 32) + 5] {
                let mut b = *bg;
                for lane in 0..5 { b[lane] = (f >> (8 * (4 - lane))) as u8; }
                v.push(b);
            }
            for t in 0..=65535u32 { let mut b = *bg; b[6] = (t >> 8) as u8; b[7] = t as u8; v.push(b); }
            for z in 0..=255u8 { let mut b = *bg; b[8] = z; v.push(b); }
            for n in 0..=65535u32 { let mut b = *bg; b[9] = (n >> 8) as u8; b[10] = n as u8; v.push(b); }
            for al in 0..=255u8 { let mut b = *bg; b[11] = al; v.push(b); }
            for r in 0..=255u8 { let mut b = *bg; b[5] = r; v.push(b); }
        }
        // a family of valid configurations (so that the constructor path is taken)
        for &(f, t, z, n, al) in &[(1u64, 1u16, 1u8, 1u16, 1u8), (1000, 8, 2, 2, 4), (942574504275, 65535, 255, 1, 1), (123456789, 1024, 3, 16, 8), (56403 * 255, 1, 255, 1, 1), (65536 * 77, 1280, 1, 20, 8)] {
            v.push(rfcref::oti_bytes(f, t as u64, z as u64, n as u64, al as u64));
            for r in [1u8, 0x80, 0xFF] { let mut b = rfcref::oti_bytes(f, t as u64, z as u64, n as u64, al as u64); b[5] = r; v.push(b); }
        }
    }
    let cases = oti_cases.into_inner().unwrap();
    let valid_ctor = std::sync::atomic::AtomicU64::new(0);
    par_for_chunk(cases.len(), 4096, |i| {
        let b = cases[i];
        st.eval(1);
        let t = ((b[6] as u16) << 8) | b[7] as u16;
        let f = ((b[0] as u64) << 32) | ((b[1] as u64) << 24) | ((b[2] as u64) << 16) | ((b[3] as u64) << 8) | b[4] as u64;
        if t >= 1 && b[8] >= 1 && b[11] >= 1 && rfcref::oti_accept(f, t as u64, b[8] as u64, 0, b[11] as u64) {
            valid_ctor.fetch_add(1, std::sync::atomic::Ordering::Relaxed);
        }
        if let Err(m) = check_oti_bytes(b) {
            st.violation(format!("oti:{}", hex(&b)), m, json!({"kind":"oti","bytes":b.to_vec()}));
        }
    });
    st.nontriv(cases.len() as u64);
    st.set_counter("oti_buffers", cases.len() as u64);
    st.set_counter("oti_valid_through_constructor", valid_ctor.load(std::sync::atomic::Ordering::Relaxed));
    st.sample(json!({"kind":"pid","bytes":[7,0xAB,0xCD,0xEF],"sbn":7,"esi":0xABCDEF}));
    st.sample(json!({"kind":"oti","bytes":rfcref::oti_bytes(123456789, 1024, 3, 16, 8).to_vec(),"fields":[123456789u64,1024,3,16,8]}));
    st.sample(json!({"kind":"packet","sbn":255,"esi":0xFFFFFF,"len":300}));
    let exhaustive_ids = sbns.len() == 256;
    finish(ctx, &st, Finish {
        level: "exploration",
        rule: format!("PayloadId: every 4-byte string for {} SBN values x all 2^24 ESIs (deserialize, accessors, serialize, new, reference layout){}; EncodingPacket: payload lengths 0..=300, 2^k-1..2^k+1 for k=9..17 (incl. 65535, 65536, 131072) and 100000 x 64 boundary IDs; OTI: each field exhaustively over its whole bit width (F byte lanes + single bits + limits, T 2^16, Z 2^8, N 2^16, Al 2^8, reserved byte 2^8) against 3 backgrounds, valid values also through the constructor. Non-trivial (counted): ids whose three ESI bytes are non-zero and pairwise distinct (byte order observable); every OTI buffer and packet.", sbns.len(), if exhaustive_ids { " = all 2^32 payload IDs" } else { "" }),
        exhaustive: exhaustive_ids,
        assumptions: vec!["RFC 6330 3.2/3.3.2/3.3.3 field order and big-endian layout as written in the reference (rfcref::payload_id_bytes, oti_bytes)".into(), "OTI fields are independent: each output byte depends on one field only (verified lane by lane against three backgrounds), so the 88-bit product is not enumerated".into()],
        extra: Map::new(),
        must_be_nonzero: vec!["payload_ids", "packets", "oti_buffers", "oti_valid_through_constructor"],
    }, replay)
}
