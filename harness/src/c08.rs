//! C08 — decoder outcome is independent of order, duplication and batching.
//! Explicit-state exploration of the real decoder: states are real decoder objects reached by delivering
//! packets of a fixed universe (any packet at any time: reordering, duplicates, re-delivery after
//! completion), de-duplicated by an exact canonical key and confirmed with the objects' own `==`.
//! Abstract model: set of distinct packets delivered; abstract answer = fresh decoder, canonical order, one batch.
use crate::codec::*;
use crate::common::*;
use raptorq::{Decoder, Encoder, EncodingPacket, ObjectTransmissionInformation as Oti, SourceBlockDecoder, SourceBlockEncoder};
use serde_json::{json, Map, Value};
use std::collections::{HashMap, VecDeque};

// ------------------------------------------------------------------------------------------------
// block level
// ------------------------------------------------------------------------------------------------
struct BlockUniverse {
    k: u32,
    /// symbol size, sub-blocks, alignment
    shape: (u16, u16, u8),
    threshold: u32,
    esis: Vec<u32>,
    packets: Vec<EncodingPacket>,
    data: Vec<u8>,
}

fn shaped_cfg(k: u32, shape: (u16, u16, u8)) -> Oti {
    Oti::new(k as u64 * shape.0 as u64, shape.0, 1, shape.1, shape.2)
}

fn shaped_decoder(k: u32, shape: (u16, u16, u8), threshold: u32) -> SourceBlockDecoder {
    let mut d = SourceBlockDecoder::new(0, &shaped_cfg(k, shape), k as u64 * shape.0 as u64);
    d.verif_set_sparse_threshold(threshold);
    d
}

fn block_universe(k: u32, repair: &[u32], threshold: u32) -> BlockUniverse {
    block_universe_shaped(k, (1, 1, 1), repair, threshold)
}

fn block_universe_shaped(k: u32, shape: (u16, u16, u8), repair: &[u32], threshold: u32) -> BlockUniverse {
    let data = data_pos(k as usize * shape.0 as usize);
    let enc = SourceBlockEncoder::new(0, &shaped_cfg(k, shape), &data);
    let src = enc.source_packets();
    let mut esis: Vec<u32> = (0..k).collect();
    esis.extend_from_slice(repair);
    let packets = esis.iter().map(|&e| if e < k { src[e as usize].clone() } else { repair_packet(&enc, k, e) }).collect();
    BlockUniverse { k, shape, threshold, esis, packets, data }
}

type BKey = (Vec<u32>, Vec<u32>, u32, u32, bool);

/// abstract answer of a set (bitmask over the universe): a fresh decoder given the set once, in canonical order,
/// packet by packet; cross-checked against a fresh decoder given the same set in ONE call
fn abstract_answer(u: &BlockUniverse, mask: u32, memo: &mut HashMap<u32, Option<bool>>) -> Result<bool, String> {
    if let Some(Some(a)) = memo.get(&mask) {
        return Ok(*a);
    }
    let idx: Vec<usize> = (0..u.esis.len()).filter(|i| mask & (1 << i) != 0).collect();
    let pk: Vec<EncodingPacket> = idx.iter().map(|&i| u.packets[i].clone()).collect();
    let mut d = shaped_decoder(u.k, u.shape, u.threshold);
    let r = guarded(|| d.decode(pk)).map_err(|e| format!("fresh decoder panicked on set {:#b}: {}", mask, e))?;
    if let Some(x) = &r {
        if x != &u.data {
            return Err(format!("fresh decoder returned wrong bytes for set {:#b}", mask));
        }
    }
    if u.esis.len() <= 8 || mask.count_ones() <= u.k + 1 {
        let mut d1 = shaped_decoder(u.k, u.shape, u.threshold);
        let mut last = None;
        for &i in &idx {
            last = guarded(|| d1.decode(std::iter::once(u.packets[i].clone()))).map_err(|e| format!("fresh decoder panicked on set {:#b} delivered packet by packet: {}", mask, e))?;
        }
        if last.is_some() != r.is_some() {
            return Err(format!("a fresh decoder given the set {:?} in one call answers {}, given the same packets one per call it answers {}", idx.iter().map(|&i| u.esis[i]).collect::<Vec<_>>(), if r.is_some() { "Some" } else { "None" }, if last.is_some() { "Some" } else { "None" }));
        }
        if let Some(x) = &last {
            if x != &u.data {
                return Err(format!("fresh decoder returned wrong bytes for set {:#b} delivered packet by packet", mask));
            }
        }
    }
    memo.insert(mask, Some(r.is_some()));
    Ok(r.is_some())
}

struct BNode {
    dec: SourceBlockDecoder,
    mask: u32,
    calls: Vec<Vec<usize>>, // one shortest history (list of decode() calls, each a batch of universe indices) reaching it
}

fn calls_to_esis(u: &BlockUniverse, calls: &[Vec<usize>]) -> Vec<Vec<u32>> {
    calls.iter().map(|c| c.iter().map(|&i| u.esis[i]).collect()).collect()
}

/// Explicit-state exploration to closure. A node is (real decoder object, set of delivered packets); a transition
/// is ONE decode() call with one packet or (batches) with any ordered pair / triple of universe packets.
fn explore_block(u: &BlockUniverse, st: &Stats, batches: bool) {
    let n = u.esis.len();
    let mut memo: HashMap<u32, Option<bool>> = HashMap::new();
    // canonical key -> nodes with that key (objects with equal keys but unequal contents, or equal objects reached
    // with different delivered sets, are distinct nodes)
    let mut seen: HashMap<BKey, Vec<usize>> = HashMap::new();
    let mut nodes: Vec<BNode> = vec![];
    let mut queue: VecDeque<usize> = VecDeque::new();
    let mut hidden_state_splits = 0u64;
    let mut deficient_with_k = 0u64;
    let mut same_object_other_set = 0u64;
    let mut capped = false;
    const STATE_CAP: usize = 400_000;
    let d0 = shaped_decoder(u.k, u.shape, u.threshold);
    seen.insert(d0.verif_canonical_state(), vec![0]);
    nodes.push(BNode { dec: d0, mask: 0, calls: vec![] });
    queue.push_back(0);
    let (mut transitions, mut revisits, mut dup_transitions, mut after_completion, mut batch_transitions) = (0u64, 0u64, 0u64, 0u64, 0u64);
    let local_violations = std::cell::Cell::new(0u64);
    let report = |calls: &[Vec<usize>], msg: String| {
        local_violations.set(local_violations.get() + 1);
        let es = calls_to_esis(u, calls);
        st.violation(format!("block:{}:{:?}:{}:{:?}", u.k, u.shape, u.threshold, es), format!("K={} (T,N,Al)={:?} universe ESIs {:?}, decode() calls {:?}: {}", u.k, u.shape, u.esis, es, msg), json!({"kind":"block","K":u.k,"shape":[u.shape.0,u.shape.1,u.shape.2],"threshold":u.threshold,"universe":u.esis,"calls":es}));
    };
    // the menu of calls
    let mut menu: Vec<Vec<usize>> = (0..n).map(|i| vec![i]).collect();
    if batches {
        for a in 0..n {
            for b in 0..n {
                menu.push(vec![a, b]);
                if n <= 6 {
                    for c in 0..n {
                        menu.push(vec![a, b, c]);
                    }
                }
            }
        }
    }
    while let Some(id) = queue.pop_front() {
        if capped {
            break;
        }
        if local_violations.get() >= 200 {
            // BFS order: the shortest failing histories are on record; a broken decoder may have an unbounded state space
            st.note(format!("block K={} universe {:?}: exploration stopped after {} violating transitions", u.k, u.esis, local_violations.get()));
            break;
        }
        let was_done = abstract_answer(u, nodes[id].mask, &mut memo).unwrap_or(false);
        for call in &menu {
            let (src_dec, src_mask, mut calls) = { let nd = &nodes[id]; (nd.dec.clone(), nd.mask, nd.calls.clone()) };
            calls.push(call.clone());
            let mut d = src_dec;
            let pk: Vec<EncodingPacket> = call.iter().map(|&i| u.packets[i].clone()).collect();
            let r = guarded(|| d.decode(pk));
            transitions += 1;
            if call.len() > 1 { batch_transitions += 1; }
            let mut mask = src_mask;
            let mut dup = false;
            for &i in call {
                if mask & (1 << i) != 0 { dup = true; }
                mask |= 1 << i;
            }
            if dup { dup_transitions += 1; }
            if was_done { after_completion += 1; }
            let want = match abstract_answer(u, mask, &mut memo) {
                Ok(w) => w,
                Err(m) => { report(&calls, m); continue; }
            };
            match r {
                Err(p) => { report(&calls, format!("decode panicked: {}", p)); continue; }
                Ok(None) => if want { report(&calls, "this history answers 'not yet' but the same set of packets delivered once to a fresh decoder decodes".into()); },
                Ok(Some(x)) => {
                    if !want { report(&calls, "this history decodes but the same set of packets delivered once to a fresh decoder does not".into()); }
                    else if x != u.data { report(&calls, "wrong bytes".into()); }
                }
            }
            // the invariant the decoder's case analysis relies on (property anchor): the counter of received source
            // symbols equals the number of stored source symbols. How the decoder books ESIs (it may, e.g., keep
            // recovered symbols after a solve) is its own business and is judged by the answers only.
            let key = d.verif_canonical_state();
            if key.2 != key.3 {
                report(&calls, format!("counting invariant broken: received_source_symbols={} but {} source symbols are stored (set size {})", key.2, key.3, mask.count_ones()));
            }
            if !want && mask.count_ones() >= u.k {
                deficient_with_k += 1;
            }
            let entry = seen.entry(key).or_default();
            if entry.iter().any(|&j| nodes[j].dec == d && nodes[j].mask == mask) {
                revisits += 1;
            } else {
                if entry.iter().any(|&j| nodes[j].dec != d) {
                    hidden_state_splits += 1;
                }
                if entry.iter().any(|&j| nodes[j].dec == d) {
                    same_object_other_set += 1;
                }
                if nodes.len() >= STATE_CAP {
                    if st.violation_count.load(std::sync::atomic::Ordering::Relaxed) > 0 {
                        st.note(format!("block K={} universe {:?}: exploration stopped at {} states after violations were found", u.k, u.esis, STATE_CAP));
                        capped = true;
                        break;
                    }
                    machinery_failure(&format!("C08: state space of K={} universe {:?} not closed within {} states (unbounded hidden state?)", u.k, u.esis, STATE_CAP));
                }
                let j = nodes.len();
                entry.push(j);
                nodes.push(BNode { dec: d, mask, calls });
                queue.push_back(j);
            }
        }
    }
    st.state(nodes.len() as u64);
    st.transition(transitions);
    st.trace(transitions);
    st.eval(transitions);
    st.nontriv(nodes.len() as u64);
    st.count("block_states", nodes.len() as u64);
    st.count("block_transitions", transitions);
    st.count("block_transitions_duplicate_packet", dup_transitions);
    st.count("block_transitions_after_completion", after_completion);
    st.count("block_state_revisits_confirmed_equal", revisits);
    st.count("block_batch_checks", batch_transitions);
    st.count("block_states_split_by_hidden_state", hidden_state_splits);
    st.count("block_states_same_object_other_set", same_object_other_set);
    st.count("block_transitions_into_rank_deficient_sets_with_K_or_more_symbols", deficient_with_k);
    st.count("abstract_sets_decodable", memo.values().filter(|v| **v == Some(true)).count() as u64);
    st.count("abstract_sets_undecodable", memo.values().filter(|v| **v == Some(false)).count() as u64);
    st.note(format!("block K={} (T,N,Al)={:?} universe {:?} threshold {}: {} states, {} transitions ({} of them multi-packet calls)", u.k, u.shape, u.esis, u.threshold, nodes.len(), transitions, batch_transitions));
    if u.shape.1 > 1 { st.count("block_states_with_sub_blocks", nodes.len() as u64); }
}

/// bounded sequences on never-cloned originals (validates that exploring clones hides nothing)
fn originals_block(u: &BlockUniverse, depth: usize, st: &Stats) {
    let n = u.esis.len();
    let total = (n as u64).pow(depth as u32);
    let mut memo: HashMap<u32, Option<bool>> = HashMap::new();
    let mut count = 0u64;
    for code in 0..total {
        let mut seq = vec![];
        let mut c = code;
        for _ in 0..depth { seq.push((c % n as u64) as usize); c /= n as u64; }
        let mut d = shaped_decoder(u.k, u.shape, u.threshold);
        let mut mask = 0u32;
        for (s, &i) in seq.iter().enumerate() {
            mask |= 1 << i;
            let r = guarded(|| d.decode(std::iter::once(u.packets[i].clone())));
            let want = abstract_answer(u, mask, &mut memo).unwrap_or(false);
            count += 1;
            let bad = match &r { Err(_) => true, Ok(None) => want, Ok(Some(x)) => !want || x != &u.data };
            if bad {
                let es: Vec<u32> = seq[..=s].iter().map(|&i| u.esis[i]).collect();
                st.violation(format!("block:{}:{:?}:{}:{:?}", u.k, u.shape, u.threshold, es), format!("K={} (T,N,Al)={:?} sequence {:?} on an un-cloned decoder: answer {:?}, abstract answer {}", u.k, u.shape, es, r.map(|o| o.map(|x| x.len())), want), json!({"kind":"block","K":u.k,"shape":[u.shape.0,u.shape.1,u.shape.2],"threshold":u.threshold,"universe":u.esis,"calls":es.iter().map(|&e| vec![e]).collect::<Vec<_>>()}));
                break;
            }
        }
    }
    st.eval(count);
    st.trace(count);
    st.count("uncloned_original_steps", count);
}

fn replay_block(case: &Value) -> Result<(), String> {
    let k = case["K"].as_u64().unwrap() as u32;
    let th = case["threshold"].as_u64().unwrap() as u32;
    let uni: Vec<u32> = case["universe"].as_array().unwrap().iter().map(|x| x.as_u64().unwrap() as u32).collect();
    let calls: Vec<Vec<u32>> = match case["calls"].as_array() {
        Some(c) => c.iter().map(|b| b.as_array().unwrap().iter().map(|x| x.as_u64().unwrap() as u32).collect()).collect(),
        None => case["sequence"].as_array().unwrap().iter().map(|x| vec![x.as_u64().unwrap() as u32]).collect(),
    };
    let rep: Vec<u32> = uni.iter().copied().filter(|&e| e >= k).collect();
    let shape = match case["shape"].as_array() {
        Some(a) => (a[0].as_u64().unwrap() as u16, a[1].as_u64().unwrap() as u16, a[2].as_u64().unwrap() as u8),
        None => (1, 1, 1),
    };
    let u = block_universe_shaped(k, shape, &rep, th);
    let mut memo = HashMap::new();
    let mut d = shaped_decoder(k, shape, th);
    let mut mask = 0u32;
    for (s, call) in calls.iter().enumerate() {
        let mut pk = vec![];
        for e in call {
            let i = u.esis.iter().position(|x| x == e).ok_or("ESI not in universe")?;
            mask |= 1 << i;
            pk.push(u.packets[i].clone());
        }
        let r = guarded(|| d.decode(pk)).map_err(|p| format!("call {}: panic {}", s, p))?;
        let want = abstract_answer(&u, mask, &mut memo)?;
        match r {
            None if want => return Err(format!("call {}: None, abstract answer Some", s)),
            Some(_) if !want => return Err(format!("call {}: Some, abstract answer None", s)),
            Some(x) if x != u.data => return Err(format!("call {}: wrong bytes", s)),
            _ => {}
        }
        let key = d.verif_canonical_state();
        if key.2 != key.3 {
            return Err(format!("call {}: counting invariant broken (received_source_symbols={}, stored={})", s, key.2, key.3));
        }
    }
    Ok(())
}

// ------------------------------------------------------------------------------------------------
// object level: interleaving of blocks, three interfaces
// ------------------------------------------------------------------------------------------------
struct ObjUniverse {
    cfg: (u64, u16, u8, u16, u8),
    oti: Oti,
    data: Vec<u8>,
    packets: Vec<EncodingPacket>,
}

fn obj_universe(cfg: (u64, u16, u8, u16, u8), repair_per_block: u32) -> ObjUniverse {
    let data = data_pos(cfg.0 as usize);
    let oti = Oti::new(cfg.0, cfg.1, cfg.2, cfg.3, cfg.4);
    let enc = Encoder::new(&data, oti);
    let mut packets = vec![];
    for be in enc.get_block_encoders() {
        packets.extend(be.source_packets());
        packets.extend(be.repair_packets(0, repair_per_block));
    }
    ObjUniverse { cfg, oti, data, packets }
}

fn obj_abstract(u: &ObjUniverse, mask: u64, memo: &mut HashMap<u64, bool>) -> Result<bool, String> {
    if let Some(a) = memo.get(&mask) {
        return Ok(*a);
    }
    let mut d = Decoder::new(u.oti);
    let mut r = None;
    for i in 0..u.packets.len() {
        if mask & (1 << i) != 0 {
            r = guarded(|| d.decode(u.packets[i].clone())).map_err(|e| format!("fresh decoder panicked: {}", e))?;
        }
    }
    if let Some(x) = &r {
        if x != &u.data {
            return Err("fresh decoder returned a wrong object".into());
        }
    }
    memo.insert(mask, r.is_some());
    Ok(r.is_some())
}

type OKey = Vec<BKey>;

fn obj_key(d: &Decoder) -> OKey {
    d.verif_block_decoders().iter().map(|b| b.verif_canonical_state()).collect()
}

fn explore_object(u: &ObjUniverse, st: &Stats) {
    let n = u.packets.len();
    let mut memo: HashMap<u64, bool> = HashMap::new();
    // NOTE: the real state does not record packets that arrive for an already completed block, so the
    // abstract set of a node is "packets that were delivered"; two paths with different sets can share a
    // real state. The oracle therefore is evaluated per transition with the path's own set.
    let mut seen: HashMap<OKey, Vec<usize>> = HashMap::new();
    let mut nodes: Vec<(Decoder, u64, Vec<usize>)> = vec![];
    let mut queue: VecDeque<usize> = VecDeque::new();
    let d0 = Decoder::new(u.oti);
    seen.insert(obj_key(&d0), vec![0]);
    nodes.push((d0, 0, vec![]));
    queue.push_back(0);
    let mut transitions = 0u64;
    let mut revisits = 0u64;
    let mut interface_splits = 0u64;
    let local_violations = std::cell::Cell::new(0u64);
    let report = |path: &[usize], msg: String| {
        local_violations.set(local_violations.get() + 1);
        let ids: Vec<(u8, u32)> = path.iter().map(|&i| (u.packets[i].payload_id().source_block_number(), u.packets[i].payload_id().encoding_symbol_id())).collect();
        st.violation(format!("object:{:?}:{:?}", u.cfg, path), format!("config {:?}, sequence (SBN,ESI) {:?}: {}", u.cfg, ids, msg), json!({"kind":"object","cfg":[u.cfg.0,u.cfg.1,u.cfg.2,u.cfg.3,u.cfg.4],"repair":((n as u64 - 0) as u64),"path":path,"npk":n}));
    };
    while let Some(id) = queue.pop_front() {
        if local_violations.get() >= 200 {
            st.note(format!("object config {:?}: exploration stopped after {} violating transitions", u.cfg, local_violations.get()));
            break;
        }
        for i in 0..n {
            let (base, bmask, mut path) = { let nd = &nodes[id]; (nd.0.clone(), nd.1, nd.2.clone()) };
            path.push(i);
            transitions += 1;
            let mut split: Option<Decoder> = None;
            // interface 1: decode
            let mut d1 = base.clone();
            let r1 = guarded(|| d1.decode(u.packets[i].clone()));
            // interface 2: add_new_packet + get_result
            let mut d2 = base.clone();
            let r2 = guarded(|| { d2.add_new_packet(u.packets[i].clone()); d2.get_result() });
            let mask = bmask | (1 << i);
            let want = match obj_abstract(u, mask, &mut memo) { Ok(w) => w, Err(m) => { report(&path, m); continue; } };
            match (&r1, &r2) {
                (Err(p), _) | (_, Err(p)) => { report(&path, format!("panicked: {}", p)); continue; }
                (Ok(a), Ok(b)) => {
                    if a != b { report(&path, format!("decode() answers {:?} but add_new_packet()+get_result() answers {:?}", a.as_ref().map(|x| x.len()), b.as_ref().map(|x| x.len()))); }
                    // a state difference between the two interfaces is not observable by itself: the second object is
                    // explored as a state of its own, so any difference in later answers is found
                    if d1 != d2 { split = Some(d2.clone()); }
                    match a {
                        None => if want { report(&path, "history answers 'not yet' but the same packet set delivered once in canonical order decodes".into()); },
                        Some(x) => {
                            if !want { report(&path, "history decodes but the same packet set in canonical order does not".into()); }
                            else if x != &u.data { report(&path, "wrong object".into()); }
                        }
                    }
                    // get_result on the untouched decoder is stable
                    if guarded(|| d1.get_result()).ok() != Some(a.clone()) { report(&path, "get_result() after decode() differs from decode()'s answer".into()); }
                }
            }
            if let Some(d2) = split {
                let key2 = obj_key(&d2);
                let e2 = seen.entry(key2).or_default();
                if !e2.iter().any(|&j| nodes[j].0 == d2 && nodes[j].1 == mask) && nodes.len() < 400_000 {
                    interface_splits += 1;
                    let j = nodes.len();
                    e2.push(j);
                    nodes.push((d2, mask, path.clone()));
                    queue.push_back(j);
                }
            }
            let key = obj_key(&d1);
            let entry = seen.entry(key).or_default();
            if entry.iter().any(|&j| nodes[j].0 == d1 && nodes[j].1 == mask) {
                revisits += 1;
            } else {
                if nodes.len() >= 400_000 {
                    if st.violation_count.load(std::sync::atomic::Ordering::Relaxed) > 0 { st.note("object exploration stopped at 400000 states after violations were found".into()); queue.clear(); break; }
                    machinery_failure("C08 object: state space not closed within 400000 states");
                }
                let j = nodes.len();
                entry.push(j);
                nodes.push((d1, mask, path));
                queue.push_back(j);
            }
        }
    }
    st.state(nodes.len() as u64);
    st.transition(transitions);
    st.trace(transitions * 2);
    st.eval(transitions * 2);
    st.nontriv(nodes.len() as u64);
    st.count("object_states", nodes.len() as u64);
    st.count("object_transitions", transitions);
    st.count("object_state_revisits_confirmed_equal", revisits);
    st.count("object_states_split_by_interface", interface_splits);
    st.note(format!("object config {:?}, {} packets: {} states, {} transitions x 2 interfaces", u.cfg, n, nodes.len(), transitions));
}

fn replay_object(case: &Value) -> Result<(), String> {
    let c: Vec<u64> = case["cfg"].as_array().unwrap().iter().map(|x| x.as_u64().unwrap()).collect();
    let npk = case["npk"].as_u64().unwrap() as usize;
    let path: Vec<usize> = case["path"].as_array().unwrap().iter().map(|x| x.as_u64().unwrap() as usize).collect();
    let cfg = (c[0], c[1] as u16, c[2] as u8, c[3] as u16, c[4] as u8);
    // find the repair count that gives npk packets
    let mut u = obj_universe(cfg, 1);
    for r in 0..4 { u = obj_universe(cfg, r); if u.packets.len() == npk { break; } }
    let mut memo = HashMap::new();
    let mut d1 = Decoder::new(u.oti);
    let mut d2 = Decoder::new(u.oti);
    let mut mask = 0u64;
    for (s, &i) in path.iter().enumerate() {
        mask |= 1 << i;
        let a = guarded(|| d1.decode(u.packets[i].clone())).map_err(|p| format!("step {}: panic {}", s, p))?;
        let b = guarded(|| { d2.add_new_packet(u.packets[i].clone()); d2.get_result() }).map_err(|p| format!("step {}: panic {}", s, p))?;
        let want = obj_abstract(&u, mask, &mut memo)?;
        if a != b { return Err(format!("step {}: interfaces disagree", s)); }
        if d1 != d2 { return Err(format!("step {}: states of the two interfaces differ", s)); }
        match a {
            None if want => return Err(format!("step {}: None, abstract Some", s)),
            Some(_) if !want => return Err(format!("step {}: Some, abstract None", s)),
            Some(x) if x != u.data => return Err(format!("step {}: wrong object", s)),
            _ => {}
        }
    }
    Ok(())
}

pub fn replay(case: &Value) -> Result<(), String> {
    match case["kind"].as_str().unwrap_or("") {
        "block" => replay_block(case),
        "object" => replay_object(case),
        k => Err(format!("unknown kind {}", k)),
    }
}

pub fn run(ctx: &Ctx) -> i32 {
    let st = Stats::new();
    let far = (1u32 << 24) - 1;
    // (universe, with batches)
    let mut blocks: Vec<(u32, Vec<u32>, u32, bool)> = vec![
        (2, vec![2, 3, far], 250, true),
        (2, vec![2, 3, 4, far], 0, true),
        (4, vec![4, 5, far], 250, true),
        (1, vec![1, 2, far], 250, true),
    ];
    if ctx.quick() {
        blocks.push((10, vec![10, 11, far], 250, false));
        blocks.push((4, vec![4, 5, 6, far], 0, true));
        blocks.push((5, vec![5, 6, 7, far], 250, false));
    } else {
        blocks.push((4, vec![4, 5, 6, far], 0, true));
        blocks.push((10, vec![10, 11, 12, far], 250, true));
        blocks.push((10, vec![10, 11, far], 0, true));
        blocks.push((12, vec![12, 13, far], 250, false));
        blocks.push((5, vec![5, 6, 7, 8, far], 250, false));
    }
    let objs: Vec<((u64, u16, u8, u16, u8), u32)> = if ctx.quick() {
        vec![((9, 2, 2, 2, 1), 1), ((11, 2, 3, 1, 1), 1), ((5, 1, 2, 1, 1), 2), ((7, 1, 3, 1, 1), 1), ((23, 4, 3, 2, 2), 1)]
    } else {
        vec![((9, 2, 2, 2, 1), 2), ((11, 2, 3, 1, 1), 2), ((5, 1, 2, 1, 1), 3), ((23, 4, 3, 2, 2), 1), ((7, 1, 3, 1, 1), 2)]
    };
    // a universe that is known (reference rank oracle) to contain a rank-deficient set of exactly K symbols:
    // histories "deficient set, then one more symbol" exist by construction
    {
        let sp = crate::c07::specials();
        let deficient = &sp[0].1; // 10 ESIs, rank-deficient
        let mut rep: Vec<u32> = deficient.iter().copied().filter(|&e| e >= 10).collect();
        rep.sort_unstable();
        if rep.len() <= 6 {
            blocks.push((10, rep.clone(), 250, false));
            if ctx.thorough() {
                blocks.push((10, rep, 0, false));
            }
        }
    }
    let mut shapes_of: Vec<(u16, u16, u8)> = vec![(1, 1, 1); blocks.len()];
    // block decoders with sub-blocks (N > 1, even and uneven splits) and wider symbols: what is kept after a
    // solve must be in the layout the later calls expect
    let mut shaped: Vec<(u32, (u16, u16, u8), Vec<u32>, u32, bool)> = vec![
        (2, (4, 2, 1), vec![2, 3, far], 250, true),
        (3, (5, 3, 1), vec![3, 4, far], 250, true),
        (4, (6, 2, 2), vec![4, 5, far], 0, false),
    ];
    shaped.push((4, (7, 3, 1), vec![4, 5, 6, far], 250, true));
    shaped.push((5, (8, 2, 4), vec![5, 6, far], 0, true));
    if ctx.thorough() {
        shaped.push((10, (12, 5, 1), vec![10, 11, far], 250, false));
    }
    for (k, sh, rep, th, bat) in shaped {
        blocks.push((k, rep, th, bat));
        shapes_of.push(sh);
    }
    let nb = blocks.len();
    par_for(nb + objs.len() + 2, |w| {
        if w < nb {
            let (k, rep, th, bat) = &blocks[w];
            let u = block_universe_shaped(*k, shapes_of[w], rep, *th);
            explore_block(&u, &st, *bat);
        } else if w < nb + objs.len() {
            let (cfg, r) = objs[w - nb];
            let u = obj_universe(cfg, r);
            explore_object(&u, &st);
        } else if w == nb + objs.len() {
            let u = block_universe(2, &[2, 3, far], 250);
            originals_block(&u, if ctx.quick() { 5 } else { 7 }, &st);
        } else {
            let u = block_universe(4, &[4, far], 0);
            originals_block(&u, if ctx.quick() { 5 } else { 6 }, &st);
        }
    });
    st.sample(json!({"kind":"block","K":2,"universe_esis":[0,1,2,3,far],"explored":"all reachable decoder states under delivery of any universe packet at any time (duplicates, after completion), every transition compared with the answer of a fresh decoder given the set once; every ordered pair/triple also as one batch"}));
    st.sample(json!({"kind":"object","config":[9,2,2,2,1],"interfaces":["decode","add_new_packet+get_result"],"explored":"all interleavings of the two blocks' packets incl. duplicates until closure"}));
    st.sample(json!({"kind":"uncloned","K":2,"sequences":"all sequences with repetition up to the depth bound, each on a fresh never-cloned decoder"}));
    finish(ctx, &st, Finish {
        level: "model_checking",
        rule: "explicit-state exploration to closure: a state is (real SourceBlockDecoder / Decoder object, set of delivered packets), reached by calling decode() with any packet of a fixed universe at any time (so every order, every multiplicity, every continuation after completion, every interleaving of blocks is a path) and, for the small universes, with any ordered pair / triple of packets in ONE call (every mix of batched and single delivery is a path too); states are de-duplicated by an exact canonical key (sorted ESIs, repair arrival order, counters, decoded flag) confirmed with the objects' own ==. On every transition the answer must equal the abstract answer of the delivered set (a fresh decoder given the set once packet by packet, cross-checked against a fresh decoder given it in one call), bytes must be the data, received_source_symbols must equal the number of stored source symbols, and at object level decode() must agree with add_new_packet()+get_result() (a differing state after the two interfaces is explored as a state of its own); block universes include sub-blocked configurations (N>1); plus all bounded sequences on never-cloned decoders. distinct_nontrivial = distinct reachable states.".into(),
        exhaustive: true,
        assumptions: vec!["closure is relative to the fixed packet universes listed in notes; packets are the encoder's own (equal ESI implies equal payload)".into()],
        extra: Map::new(),
        must_be_nonzero: vec!["block_states", "block_states_with_sub_blocks", "block_transitions_duplicate_packet", "block_transitions_after_completion", "block_batch_checks", "object_states", "uncloned_original_steps", "abstract_sets_decodable", "abstract_sets_undecodable", "block_state_revisits_confirmed_equal", "block_transitions_into_rank_deficient_sets_with_K_or_more_symbols"],
    }, replay)
}
