//! C03 — reception overhead: failure odds shrink ~256x per extra symbol (bounded version).
//! Every (K+h)-subset, h in {0,1,2}, of fixed finite universes is decoded; exact failure counts.
use crate::c02::{make_universe, Universe};
use crate::codec::*;
use crate::common::*;
use crate::rfcref;
use serde_json::{json, Map, Value};
use std::sync::atomic::{AtomicU64, Ordering};

/// universe of n encoding symbols: K source, then repair: half near (K, K+1, ..), half spread over 24 bits
pub fn universe_esis(k: u32, n: u32) -> Vec<u32> {
    let r = n - k;
    let near = r.div_ceil(2);
    let mut v: Vec<u32> = (0..k + near).collect();
    for j in 0..(r - near) {
        // fixed spread ESIs (never drawn at run time)
        let e = k + 1000 + ((j as u64 + 1) * 2796203 % ((1u64 << 24) - k as u64 - 2000)) as u32;
        v.push(e);
    }
    v.sort_unstable();
    v.dedup();
    assert_eq!(v.len(), n as usize);
    v
}

/// decode one subset (indices into the universe) with a fresh decoder, one batch; compare with the rank oracle
fn eval_subset(u: &Universe, idx: &[usize]) -> Result<bool, String> {
    let k = u.k as usize;
    let pk: Vec<_> = idx.iter().map(|&i| u.packets[i].clone()).collect();
    let mut dec = new_block_decoder(u.k, 1, Some(u.threshold));
    let r = guarded(|| dec.decode(pk)).map_err(|e| format!("decode panicked: {}", e))?;
    let mut ech = u.base_full.clone();
    for &i in idx {
        ech.insert(u.rows[i].clone());
    }
    let nsrc = idx.iter().filter(|&&i| (u.esis[i] as usize) < k).count();
    let expect = nsrc == k || ech.full();
    // the same set delivered in two calls: the K highest ESIs first (an attempt that may fail), then the rest
    // (mostly source symbols). What arrived must not matter, only the set.
    if idx.len() > k {
        let h = idx.len() - k;
        let mut d2 = new_block_decoder(u.k, 1, Some(u.threshold));
        let first: Vec<_> = idx[h..].iter().map(|&i| u.packets[i].clone()).collect();
        let second: Vec<_> = idx[..h].iter().map(|&i| u.packets[i].clone()).collect();
        let r2 = guarded(|| {
            let a = d2.decode(first);
            if a.is_some() { a } else { d2.decode(second) }
        })
        .map_err(|e| format!("decode panicked (two calls): {}", e))?;
        if r2.is_some() != r.is_some() {
            return Err(format!("the set decodes = {} when handed over in one call but = {} when the K highest ESIs come first and the other {} afterwards", r.is_some(), r2.is_some(), h));
        }
        if let Some(d) = &r2 {
            if d != &u.data {
                return Err("wrong bytes (two calls)".into());
            }
        }
    }
    match r {
        None if expect => Err(format!("decoder failed on a decodable set (rank {} = L)", ech.rank)),
        Some(_) if !expect => Err(format!("decoder answered although rank {} < L {}", ech.rank, u.p.L)),
        Some(d) if d != u.data => Err("wrong bytes".into()),
        None => Ok(false),
        Some(_) => Ok(true),
    }
}

struct Tally {
    total: [AtomicU64; 3],
    fail: [AtomicU64; 3],
}

fn run_universe(k: u32, n: u32, threshold: u32, st: &Stats, tally: &Tally) {
    let u = make_universe(k, universe_esis(k, n), threshold, usize::MAX);
    let nn = n as usize;
    let kk = k as usize;
    let mut per = [[0u64; 2]; 3];
    for h in 0..3usize {
        let m = kk + h;
        if m > nn {
            continue;
        }
        // tasks: first two elements (a < b)
        let mut tasks: Vec<(usize, usize)> = vec![];
        for a in 0..nn {
            for b in a + 1..nn {
                if nn - b - 1 >= m.saturating_sub(2) {
                    tasks.push((a, b));
                }
            }
        }
        let tot = AtomicU64::new(0);
        let fl = AtomicU64::new(0);
        let allsrc = AtomicU64::new(0);
        if m < 2 {
            // K = 1, h = 0: single-element subsets
            for a in 0..nn {
                if m == 1 {
                    let idx = [a];
                    if (u.esis[a] as usize) < kk { allsrc.fetch_add(1, Ordering::Relaxed); continue; }
                    tot.fetch_add(1, Ordering::Relaxed);
                    match eval_subset(&u, &idx) {
                        Ok(true) => {}
                        Ok(false) => { fl.fetch_add(1, Ordering::Relaxed); }
                        Err(msg) => st.violation(format!("subset:{}:{}:{:?}", k, threshold, idx), msg, json!({"kind":"subset","K":k,"n":n,"threshold":threshold,"esis":[u.esis[a]]})),
                    }
                }
            }
        } else {
            par_for(tasks.len(), |t| {
                let (a, b) = tasks[t];
                let rest_n = nn - b - 1;
                let mut idx = vec![0usize; m];
                idx[0] = a;
                idx[1] = b;
                let (mut lt, mut lf, mut la) = (0u64, 0u64, 0u64);
                for_each_combination(rest_n, m - 2, |c| {
                    for (j, &x) in c.iter().enumerate() {
                        idx[2 + j] = b + 1 + x;
                    }
                    // subsets containing all source symbols are trivially decodable: excluded by the design
                    let nsrc = idx.iter().filter(|&&i| (u.esis[i] as usize) < kk).count();
                    if nsrc == kk {
                        la += 1;
                        return;
                    }
                    lt += 1;
                    match eval_subset(&u, &idx) {
                        Ok(true) => {}
                        Ok(false) => lf += 1,
                        Err(msg) => {
                            let es: Vec<u32> = idx.iter().map(|&i| u.esis[i]).collect();
                            st.violation(format!("subset:{}:{}:{:?}", k, threshold, es), msg, json!({"kind":"subset","K":k,"n":n,"threshold":threshold,"esis":es}));
                        }
                    }
                });
                tot.fetch_add(lt, Ordering::Relaxed);
                fl.fetch_add(lf, Ordering::Relaxed);
                allsrc.fetch_add(la, Ordering::Relaxed);
            });
        }
        let (t, f) = (tot.load(Ordering::Relaxed), fl.load(Ordering::Relaxed));
        per[h] = [t, f];
        tally.total[h].fetch_add(t, Ordering::Relaxed);
        tally.fail[h].fetch_add(f, Ordering::Relaxed);
        st.eval(t);
        st.count("subsets_with_all_source_skipped", allsrc.load(Ordering::Relaxed));
        let expected_total = binom(n as u64, m as u64) - if m >= kk { binom((n - k) as u64, (m - kk) as u64) } else { 0 };
        if t != expected_total {
            machinery_failure(&format!("C03 enumeration count mismatch K={} n={} h={}: {} vs {}", k, n, h, t, expected_total));
        }
    }
    st.note(format!("K={} n={} threshold={}: h=0 {}/{} ({:.4}%), h=1 {}/{} ({:.5}%), h=2 {}/{} ({:.6}%) failures", k, n, threshold, per[0][1], per[0][0], 100.0 * per[0][1] as f64 / per[0][0].max(1) as f64, per[1][1], per[1][0], 100.0 * per[1][1] as f64 / per[1][0].max(1) as f64, per[2][1], per[2][0], 100.0 * per[2][1] as f64 / per[2][0].max(1) as f64));
    st.sample(json!({"K":k,"n":n,"universe_esis":u.esis,"failures_over_subsets":{"h0":per[0],"h1":per[1],"h2":per[2]}}));
}

fn universes(quick: bool) -> Vec<(u32, u32, u32)> {
    if quick {
        vec![(4, 16, 250), (10, 20, 250), (12, 20, 0)]
    } else {
        vec![(4, 16, 250), (10, 22, 250), (12, 22, 0), (18, 26, 250), (20, 27, 0), (26, 32, 250)]
    }
}

fn aggregate(quick: bool, st: &Stats) -> ([u64; 3], [u64; 3]) {
    let tally = Tally { total: [AtomicU64::new(0), AtomicU64::new(0), AtomicU64::new(0)], fail: [AtomicU64::new(0), AtomicU64::new(0), AtomicU64::new(0)] };
    for (k, n, th) in universes(quick) {
        run_universe(k, n, th, st, &tally);
    }
    let t = [tally.total[0].load(Ordering::Relaxed), tally.total[1].load(Ordering::Relaxed), tally.total[2].load(Ordering::Relaxed)];
    let f = [tally.fail[0].load(Ordering::Relaxed), tally.fail[1].load(Ordering::Relaxed), tally.fail[2].load(Ordering::Relaxed)];
    (t, f)
}

/// thresholds of the property on the aggregate: fail/total < limit, in exact integer arithmetic
fn rate_violations(t: [u64; 3], f: [u64; 3]) -> Vec<(String, String)> {
    let mut v = vec![];
    let lim = [(1u128, 100u128), (1, 10_000), (1, 100_000)]; // 1%, 0.01%, 0.001%
    for h in 0..3 {
        if (f[h] as u128) * lim[h].1 >= (t[h] as u128) * lim[h].0 && t[h] > 0 {
            v.push((format!("rate:h{}", h), format!("failure fraction with {} extra symbols is {}/{} = {:.5}%, not below {}%", h, f[h], t[h], 100.0 * f[h] as f64 / t[h] as f64, 100.0 / lim[h].1 as f64)));
        }
    }
    for h in 0..2 {
        // fail_{h+1}/t_{h+1} <= fail_h/t_h
        if (f[h + 1] as u128) * (t[h] as u128) > (f[h] as u128) * (t[h + 1] as u128) {
            v.push((format!("monotone:h{}", h), format!("failure fraction grows from h={} ({}/{}) to h={} ({}/{})", h, f[h], t[h], h + 1, f[h + 1], t[h + 1])));
        }
    }
    v
}

pub fn replay(case: &Value) -> Result<(), String> {
    match case["kind"].as_str().unwrap_or("") {
        "subset" => {
            let k = case["K"].as_u64().unwrap() as u32;
            let th = case["threshold"].as_u64().unwrap() as u32;
            let esis: Vec<u32> = case["esis"].as_array().unwrap().iter().map(|x| x.as_u64().unwrap() as u32).collect();
            let u = make_universe(k, esis.clone(), th, usize::MAX);
            let idx: Vec<usize> = (0..esis.len()).collect();
            eval_subset(&u, &idx).map(|_| ())
        }
        "rate" => {
            let st = Stats::new();
            let (t, f) = aggregate(case["quick"].as_bool().unwrap(), &st);
            let key = case["key"].as_str().unwrap();
            match rate_violations(t, f).into_iter().find(|x| x.0 == key) {
                Some((_, m)) => Err(m),
                None => Ok(()),
            }
        }
        k => Err(format!("unknown kind {}", k)),
    }
}

pub fn run(ctx: &Ctx) -> i32 {
    let st = Stats::new();
    let (t, f) = aggregate(ctx.quick(), &st);
    for (key, msg) in rate_violations(t, f) {
        st.violation(key.clone(), msg, json!({"kind":"rate","key":key,"quick":ctx.quick()}));
    }
    for h in 0..3 {
        st.set_counter(&format!("subsets_h{}", h), t[h]);
        st.set_counter(&format!("failures_h{}", h), f[h]);
    }
    // distinct non-trivial: every enumerated subset is distinct and runs the solver (all-source subsets are excluded)
    st.nontriv(t[0] + t[1] + t[2]);
    st.outcome("decoded");
    if f[0] > 0 { st.outcome("rank-deficient (None)"); }
    let _ = rfcref::params_for_k(10);
    finish(ctx, &st, Finish {
        level: "exploration",
        rule: format!("for the fixed universes (K,n,sparse threshold) = {:?} (K source symbols + n-K repair symbols, half consecutive from ESI K, half at fixed ESIs spread over the 24-bit range): EVERY subset of size K, K+1, K+2 that does not contain all source symbols is decoded by a fresh real SourceBlockDecoder in one call and, for K+1 and K+2, by a second one in two calls (the K highest ESIs first, the rest afterwards: the outcome may depend on the set only); (i) None must coincide with rank_GF(256) < L by the independent reference, (ii) exact aggregate failure fractions must be < 1% (h=0), < 0.01% (h=1), < 0.001% (h=2) and non-increasing in h. Counts are exact, nothing is sampled.", universes(ctx.quick())),
        exhaustive: true,
        assumptions: vec!["C03 is a statement about a distribution over all K and all 2^24-symbol universes; enumeration decides it only for the listed finite universes (DESIGN.md section 7)".into(), "the outcome is a deterministic function of RFC 6330 and the fixed universes".into()],
        extra: Map::new(),
        must_be_nonzero: vec!["subsets_h0", "subsets_h1", "subsets_h2", "failures_h0"],
    }, replay)
}
