//! Page-heap global allocator for C12: with RQ_PAGEHEAP=end every heap allocation ends exactly at a
//! PROT_NONE page (modulo its alignment), with RQ_PAGEHEAP=start it begins right after one.
//! Unset: plain system allocator. The mode is fixed for the whole process (read with getenv at first use).
use std::alloc::{GlobalAlloc, Layout, System};
use std::sync::atomic::{AtomicI64, AtomicU64, AtomicU8, Ordering};

pub struct PageHeap;

static MODE: AtomicU8 = AtomicU8::new(0); // 0 unknown, 1 off, 2 end, 3 start
pub static LIVE: AtomicI64 = AtomicI64::new(0);
pub static GUARDED: AtomicU64 = AtomicU64::new(0);
pub static UNGUARDED: AtomicU64 = AtomicU64::new(0);
const PAGE: usize = 4096;
// vm.max_map_count is 65530 and every guarded allocation costs two mappings
const MAX_LIVE_GUARDED: i64 = 28000;

fn mode() -> u8 {
    let m = MODE.load(Ordering::Relaxed);
    if m != 0 {
        return m;
    }
    let v = unsafe { libc::getenv(b"RQ_PAGEHEAP\0".as_ptr() as *const libc::c_char) };
    let m = if v.is_null() {
        1
    } else {
        match unsafe { *v as u8 } {
            b'e' => 2,
            b's' => 3,
            _ => 1,
        }
    };
    MODE.store(m, Ordering::Relaxed);
    m
}

pub fn mode_name() -> &'static str {
    match mode() {
        2 => "end",
        3 => "start",
        _ => "off",
    }
}

fn geometry(layout: Layout) -> (usize, usize) {
    let align = layout.align().max(1);
    let data_len = (layout.size().max(1) + align - 1) / align * align;
    let pages = (data_len + PAGE - 1) / PAGE;
    (data_len, pages)
}

// Freed slots are kept on per-size-class free lists (intrusive, spin-locked) and reused: munmap costs
// ~50us on this host (TLB shoot-downs), which made whole workloads infeasible. A reused slot keeps its
// guard page; the returned pointer is recomputed from the new layout, so it is flush again.
const NCLASS: usize = 33; // slots with 1..=32 data pages
const STRIPES: usize = 32; // free lists are striped by thread to avoid contention on the spin locks
const CLASSES: usize = NCLASS * STRIPES;
static HEADS: [std::sync::atomic::AtomicUsize; CLASSES] = [const { std::sync::atomic::AtomicUsize::new(0) }; CLASSES];
static LOCKS: [std::sync::atomic::AtomicBool; CLASSES] = [const { std::sync::atomic::AtomicBool::new(false) }; CLASSES];

thread_local! {
    static STRIPE_ANCHOR: u8 = const { 0 };
}

fn stripe() -> usize {
    STRIPE_ANCHOR.try_with(|a| ((a as *const u8 as usize as u64).wrapping_mul(0x9E3779B97F4A7C15) >> 40) as usize % STRIPES).unwrap_or(0)
}

fn lock(c: usize) {
    while LOCKS[c].compare_exchange_weak(false, true, Ordering::Acquire, Ordering::Relaxed).is_err() {
        std::hint::spin_loop();
    }
}

fn unlock(c: usize) {
    LOCKS[c].store(false, Ordering::Release);
}

/// a slot is [data pages][guard] in end mode and [guard][data pages] in start mode; `base` = lowest address
unsafe fn data_start(m: u8, base: *mut u8) -> *mut u8 {
    if m == 2 {
        base
    } else {
        base.add(PAGE)
    }
}

unsafe fn new_slot(m: u8, pages: usize) -> *mut u8 {
    let total = (pages + 1) * PAGE;
    let p = libc::mmap(std::ptr::null_mut(), total, libc::PROT_READ | libc::PROT_WRITE, libc::MAP_PRIVATE | libc::MAP_ANONYMOUS, -1, 0);
    if p == libc::MAP_FAILED {
        return std::ptr::null_mut();
    }
    let p = p as *mut u8;
    let live = LIVE.fetch_add(1, Ordering::Relaxed);
    if live < MAX_LIVE_GUARDED {
        GUARDED.fetch_add(1, Ordering::Relaxed);
        let g = if m == 2 { p.add(pages * PAGE) } else { p };
        libc::mprotect(g as *mut libc::c_void, PAGE, libc::PROT_NONE);
    } else {
        UNGUARDED.fetch_add(1, Ordering::Relaxed);
    }
    p
}

pub static ALLOCS: AtomicU64 = AtomicU64::new(0);

unsafe impl GlobalAlloc for PageHeap {
    unsafe fn alloc(&self, layout: Layout) -> *mut u8 {
        let m = mode();
        if m == 1 || layout.align() > PAGE {
            return System.alloc(layout);
        }
        ALLOCS.fetch_add(1, Ordering::Relaxed);
        let (data_len, pages) = geometry(layout);
        let mut base: *mut u8 = std::ptr::null_mut();
        if pages < NCLASS {
            let c = pages * STRIPES + stripe();
            lock(c);
            let h = HEADS[c].load(Ordering::Relaxed);
            if h != 0 {
                let hb = h as *mut u8;
                let next = *(data_start(m, hb) as *const usize);
                HEADS[c].store(next, Ordering::Relaxed);
                base = hb;
            }
            unlock(c);
        }
        if base.is_null() {
            base = new_slot(m, pages);
            if base.is_null() {
                return base;
            }
        }
        if m == 2 {
            base.add(pages * PAGE).sub(data_len)
        } else {
            base.add(PAGE)
        }
    }

    unsafe fn dealloc(&self, ptr: *mut u8, layout: Layout) {
        let m = mode();
        if m == 1 || layout.align() > PAGE {
            return System.dealloc(ptr, layout);
        }
        let (data_len, pages) = geometry(layout);
        let base = if m == 2 { ptr.add(data_len).sub(pages * PAGE) } else { ptr.sub(PAGE) };
        if pages < NCLASS {
            let c = pages * STRIPES + stripe();
            lock(c);
            let h = HEADS[c].load(Ordering::Relaxed);
            *(data_start(m, base) as *mut usize) = h;
            HEADS[c].store(base as usize, Ordering::Relaxed);
            unlock(c);
        } else {
            libc::munmap(base as *mut libc::c_void, (pages + 1) * PAGE);
            LIVE.fetch_sub(1, Ordering::Relaxed);
        }
    }

    unsafe fn alloc_zeroed(&self, layout: Layout) -> *mut u8 {
        let m = mode();
        if m == 1 || layout.align() > PAGE {
            return System.alloc_zeroed(layout);
        }
        let p = self.alloc(layout);
        if !p.is_null() {
            std::ptr::write_bytes(p, 0, layout.size());
        }
        p
    }
}
