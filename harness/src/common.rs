//! Shared machinery: context, statistics, evidence writer, violation handling, work pool, data alphabet.
use serde_json::{json, Map, Value};
use std::cell::RefCell;
use std::collections::{BTreeMap, BTreeSet};
use std::panic::{catch_unwind, AssertUnwindSafe};
use std::path::PathBuf;
use std::sync::atomic::{AtomicBool, AtomicU64, AtomicUsize, Ordering};
use std::sync::Mutex;
use std::time::Instant;

#[derive(Clone, Copy, PartialEq, Eq, Debug)]
pub enum Tier {
    Quick,
    Thorough,
}

pub struct Ctx {
    pub id: String,
    pub tier: Tier,
    pub seed: u64,
    pub verif_dir: PathBuf,
    pub start: Instant,
    pub threads: usize,
    pub args: Vec<String>,
}

impl Ctx {
    pub fn quick(&self) -> bool {
        self.tier == Tier::Quick
    }
    pub fn thorough(&self) -> bool {
        self.tier == Tier::Thorough
    }
    pub fn tier_str(&self) -> &'static str {
        if self.quick() {
            "quick"
        } else {
            "thorough"
        }
    }
    pub fn elapsed(&self) -> f64 {
        self.start.elapsed().as_secs_f64()
    }
    /// optional wall-clock budget (seconds) given on the command line / environment
    pub fn budget_s(&self) -> Option<f64> {
        std::env::var("VERIF_BUDGET_S").ok().and_then(|v| v.parse().ok())
    }
    pub fn flag(&self, name: &str) -> bool {
        self.args.iter().any(|a| a == name)
    }
    pub fn opt(&self, name: &str) -> Option<String> {
        let mut it = self.args.iter();
        while let Some(a) = it.next() {
            if a == name {
                return it.next().cloned();
            }
        }
        None
    }
}

#[derive(Clone, Debug)]
pub struct Violation {
    pub key: String,
    pub msg: String,
    pub case: Value,
}

pub const MAX_STORED_VIOLATIONS: usize = 12;
pub const MAX_SAMPLES: usize = 8;

#[derive(Default)]
pub struct Stats {
    pub evaluations: AtomicU64,
    pub nontrivial: AtomicU64,
    pub states: AtomicU64,
    pub transitions: AtomicU64,
    pub traces: AtomicU64,
    pub violation_count: AtomicU64,
    pub stop: AtomicBool,
    counters: Mutex<BTreeMap<String, u64>>,
    samples: Mutex<Vec<Value>>,
    violations: Mutex<Vec<Violation>>,
    outcomes: Mutex<BTreeSet<String>>,
    notes: Mutex<Vec<String>>,
}

impl Stats {
    pub fn new() -> Self {
        Default::default()
    }
    #[inline]
    pub fn eval(&self, n: u64) {
        self.evaluations.fetch_add(n, Ordering::Relaxed);
    }
    #[inline]
    pub fn nontriv(&self, n: u64) {
        self.nontrivial.fetch_add(n, Ordering::Relaxed);
    }
    #[inline]
    pub fn state(&self, n: u64) {
        self.states.fetch_add(n, Ordering::Relaxed);
    }
    #[inline]
    pub fn transition(&self, n: u64) {
        self.transitions.fetch_add(n, Ordering::Relaxed);
    }
    #[inline]
    pub fn trace(&self, n: u64) {
        self.traces.fetch_add(n, Ordering::Relaxed);
    }
    pub fn count(&self, name: &str, n: u64) {
        *self.counters.lock().unwrap().entry(name.to_string()).or_insert(0) += n;
    }
    pub fn counter(&self, name: &str) -> u64 {
        self.counters.lock().unwrap().get(name).copied().unwrap_or(0)
    }
    pub fn set_counter(&self, name: &str, n: u64) {
        self.counters.lock().unwrap().insert(name.to_string(), n);
    }
    pub fn merge_counters(&self, local: &BTreeMap<&'static str, u64>) {
        let mut c = self.counters.lock().unwrap();
        for (k, v) in local {
            *c.entry(k.to_string()).or_insert(0) += *v;
        }
    }
    pub fn outcome(&self, o: &str) {
        let mut s = self.outcomes.lock().unwrap();
        if !s.contains(o) && s.len() < 64 {
            s.insert(o.to_string());
        }
    }
    pub fn note(&self, n: String) {
        self.notes.lock().unwrap().push(n);
    }
    pub fn sample(&self, v: Value) {
        let mut s = self.samples.lock().unwrap();
        if s.len() < MAX_SAMPLES {
            s.push(v);
        }
    }
    pub fn want_sample(&self) -> bool {
        self.samples.lock().unwrap().len() < MAX_SAMPLES
    }
    pub fn violation(&self, key: String, msg: String, case: Value) {
        self.violation_count.fetch_add(1, Ordering::Relaxed);
        let mut v = self.violations.lock().unwrap();
        if v.iter().any(|x| x.key == key) {
            return;
        }
        if v.len() < MAX_STORED_VIOLATIONS {
            v.push(Violation { key, msg, case });
        }
    }
    pub fn violations(&self) -> Vec<Violation> {
        self.violations.lock().unwrap().clone()
    }
    pub fn stopped(&self) -> bool {
        self.stop.load(Ordering::Relaxed)
    }
}

// ------------------------------------------------------------------------------------------------
// panics
// ------------------------------------------------------------------------------------------------
thread_local! {
    static LAST_PANIC: RefCell<Option<String>> = const { RefCell::new(None) };
}

pub fn install_quiet_panic_hook() {
    std::panic::set_hook(Box::new(|info| {
        let loc = info
            .location()
            .map(|l| format!("{}:{}", l.file(), l.line()))
            .unwrap_or_default();
        let payload = if let Some(s) = info.payload().downcast_ref::<&str>() {
            s.to_string()
        } else if let Some(s) = info.payload().downcast_ref::<String>() {
            s.clone()
        } else {
            "<non-string panic>".to_string()
        };
        LAST_PANIC.with(|p| *p.borrow_mut() = Some(format!("{} @ {}", payload, loc)));
        if std::env::var("VERIF_LOUD_PANICS").is_ok() {
            eprintln!("panic: {} @ {}", payload, loc);
        }
    }));
}

/// Run `f`, turning a panic into Err(message @ location)
pub fn guarded<R>(f: impl FnOnce() -> R) -> Result<R, String> {
    match catch_unwind(AssertUnwindSafe(f)) {
        Ok(r) => Ok(r),
        Err(_) => Err(LAST_PANIC
            .with(|p| p.borrow_mut().take())
            .unwrap_or_else(|| "panic".to_string())),
    }
}

// ------------------------------------------------------------------------------------------------
// work pool
// ------------------------------------------------------------------------------------------------
pub fn num_threads() -> usize {
    std::env::var("VERIF_THREADS")
        .ok()
        .and_then(|v| v.parse().ok())
        .unwrap_or_else(|| std::thread::available_parallelism().map(|n| n.get()).unwrap_or(4))
}

/// Run f(i) for i in 0..n on all cores (dynamic scheduling, one index at a time)
pub fn par_for(n: usize, f: impl Fn(usize) + Sync) {
    par_for_chunk(n, 1, f)
}

pub fn par_for_chunk(n: usize, chunk: usize, f: impl Fn(usize) + Sync) {
    let next = AtomicUsize::new(0);
    let threads = num_threads().min(n.max(1));
    let panicked: Mutex<Option<String>> = Mutex::new(None);
    std::thread::scope(|s| {
        for _ in 0..threads {
            s.spawn(|| loop {
                let start = next.fetch_add(chunk, Ordering::Relaxed);
                if start >= n {
                    break;
                }
                for i in start..(start + chunk).min(n) {
                    if let Err(m) = guarded(|| f(i)) {
                        if m.contains("/repo/src/") {
                            // the LIBRARY panicked on a call the harness had not wrapped (set-up code): that is
                            // a finding about the code, not a crash of the machinery; the work item is lost
                            collateral_library_panic(&m);
                            continue;
                        }
                        *panicked.lock().unwrap() = Some(format!("work item {}: {}", i, m));
                        next.store(n, Ordering::Relaxed);
                        return;
                    }
                }
            });
        }
    });
    if let Some(m) = panicked.into_inner().unwrap() {
        machinery_failure(&format!("harness panic in worker: {}", m));
    }
}

static COLLATERAL: Mutex<Vec<String>> = Mutex::new(Vec::new());

/// record a panic raised inside /repo/src by a call that was not individually guarded
pub fn collateral_library_panic(msg: &str) {
    let mut c = COLLATERAL.lock().unwrap();
    if c.len() < 64 {
        c.push(msg.to_string());
    }
}

/// "file:line" of the first /repo/src location in a panic message
pub fn library_location(msg: &str) -> String {
    match msg.find("/repo/src/") {
        Some(i) => msg[i..].split(|c: char| c.is_whitespace() || c == ')' || c == ',').next().unwrap_or("").trim_end_matches(':').to_string(),
        None => String::new(),
    }
}

/// A child process that dies with its parent (so that a watchdog exit or a kill of the check never leaves
/// hung children behind)
pub fn child_command<S: AsRef<std::ffi::OsStr>>(program: S) -> std::process::Command {
    use std::os::unix::process::CommandExt;
    let mut c = std::process::Command::new(program);
    unsafe {
        c.pre_exec(|| {
            libc::prctl(libc::PR_SET_PDEATHSIG, libc::SIGKILL);
            Ok(())
        });
    }
    c
}

pub fn machinery_failure(msg: &str) -> ! {
    println!("MACHINERY-FAILURE: {}", msg);
    eprintln!("MACHINERY-FAILURE: {}", msg);
    std::process::exit(2);
}

// ------------------------------------------------------------------------------------------------
// data alphabet
// ------------------------------------------------------------------------------------------------
/// `pos`: byte i = 1 + (37*i + 11) mod 251, never zero
pub fn data_pos(len: usize) -> Vec<u8> {
    (0..len).map(|i| (1 + (37 * i + 11) % 251) as u8).collect()
}

pub fn data_ff(len: usize) -> Vec<u8> {
    vec![0xFF; len]
}

pub fn data_lcg(seed: u64, len: usize) -> Vec<u8> {
    let mut x = seed.wrapping_mul(6364136223846793005).wrapping_add(1442695040888963407);
    (0..len)
        .map(|_| {
            x = x.wrapping_mul(6364136223846793005).wrapping_add(1442695040888963407);
            (x >> 56) as u8
        })
        .collect()
}

pub fn fnv64(data: &[u8]) -> u64 {
    let mut h: u64 = 0xcbf29ce484222325;
    for &b in data {
        h ^= b as u64;
        h = h.wrapping_mul(0x100000001b3);
    }
    h
}

/// second, independent 64-bit hash (polynomial over 2^64 with a different multiplier, length-seeded)
pub fn poly64(data: &[u8]) -> u64 {
    let mut h: u64 = 0x9E3779B97F4A7C15 ^ (data.len() as u64);
    for &b in data {
        h = h.rotate_left(5) ^ (b as u64);
        h = h.wrapping_mul(0xff51afd7ed558ccd);
    }
    h ^ (h >> 33)
}

pub fn hex(data: &[u8]) -> String {
    let mut s = String::with_capacity(data.len() * 2);
    for b in data {
        s.push_str(&format!("{:02x}", b));
    }
    s
}

pub fn unhex(s: &str) -> Vec<u8> {
    (0..s.len() / 2)
        .map(|i| u8::from_str_radix(&s[2 * i..2 * i + 2], 16).unwrap())
        .collect()
}

// ------------------------------------------------------------------------------------------------
// known findings
// ------------------------------------------------------------------------------------------------
pub struct Known {
    pub key: String,
    pub text: String,
}

pub fn load_known(ctx: &Ctx) -> Vec<Known> {
    let path = ctx.verif_dir.join("known_findings.txt");
    let mut out = vec![];
    if let Ok(s) = std::fs::read_to_string(&path) {
        for line in s.lines() {
            let line = line.trim();
            if !line.starts_with("finding:") {
                continue; // "fixed:" lines and comments suppress nothing
            }
            let rest = line["finding:".len()..].trim();
            let mut prop = None;
            let mut key = None;
            let mut text = String::new();
            for tok in rest.split_whitespace() {
                if let Some(v) = tok.strip_prefix("property=") {
                    if prop.is_none() {
                        prop = Some(v.to_string());
                        continue;
                    }
                }
                if let Some(v) = tok.strip_prefix("key=") {
                    if key.is_none() {
                        key = Some(v.to_string());
                        continue;
                    }
                }
                if !text.is_empty() {
                    text.push(' ');
                }
                text.push_str(tok);
            }
            if prop.as_deref() == Some(ctx.id.as_str()) {
                if let Some(k) = key {
                    out.push(Known { key: k, text });
                }
            }
        }
    }
    out
}

// ------------------------------------------------------------------------------------------------
// finish: evidence + verdict
// ------------------------------------------------------------------------------------------------
pub struct Finish<'a> {
    pub level: &'a str, // "exploration" | "model_checking"
    pub rule: String,
    pub exhaustive: bool,
    pub assumptions: Vec<String>,
    pub extra: Map<String, Value>,
    /// counters that must be non-zero, otherwise the run was vacuous (exit 2)
    pub must_be_nonzero: Vec<&'a str>,
}

pub type ReplayFn = fn(&Value) -> Result<(), String>;

pub fn finish(ctx: &Ctx, st: &Stats, fin: Finish, replay: ReplayFn) -> i32 {
    {
        let mut locs: Vec<String> = COLLATERAL.lock().unwrap().iter().map(|m| library_location(m)).collect();
        locs.sort();
        locs.dedup();
        for loc in locs {
            let msg = COLLATERAL.lock().unwrap().iter().find(|m| library_location(m) == loc).cloned().unwrap_or_default();
            st.violation(format!("library-panic:{}", loc), format!("the library panicked on a valid call made by the check's set-up code: {}", msg), json!({"kind": "library-panic", "location": loc, "tier": ctx.tier_str()}));
        }
    }
    let known = load_known(ctx);
    let vio = st.violations();
    let mut unknown: Vec<&Violation> = vec![];
    let mut known_hit: Vec<(&Violation, &Known)> = vec![];
    for v in &vio {
        if let Some(k) = known.iter().find(|k| k.key == v.key) {
            known_hit.push((v, k));
        } else {
            unknown.push(v);
        }
    }
    let total_vio = st.violation_count.load(Ordering::Relaxed);

    let mut cov = Map::new();
    let evals = st.evaluations.load(Ordering::Relaxed);
    let nontriv = st.nontrivial.load(Ordering::Relaxed);
    cov.insert("evaluations".into(), json!(evals));
    cov.insert("distinct_nontrivial".into(), json!(nontriv));
    cov.insert("rule".into(), json!(fin.rule));
    cov.insert("exhaustive".into(), json!(fin.exhaustive));
    if fin.level == "model_checking" {
        cov.insert("states".into(), json!(st.states.load(Ordering::Relaxed)));
        cov.insert("transitions".into(), json!(st.transitions.load(Ordering::Relaxed)));
        cov.insert(
            "traces_validated_against_impl".into(),
            json!(st.traces.load(Ordering::Relaxed)),
        );
    }
    let samples = st.samples.lock().unwrap().clone();
    cov.insert("samples".into(), Value::Array(samples.clone()));
    let counters: Map<String, Value> = st
        .counters
        .lock()
        .unwrap()
        .iter()
        .map(|(k, v)| (k.clone(), json!(v)))
        .collect();
    cov.insert("counters".into(), Value::Object(counters));
    let outcomes: Vec<Value> = st.outcomes.lock().unwrap().iter().map(|s| json!(s)).collect();
    cov.insert("distinct_outcomes".into(), Value::Array(outcomes));
    let notes: Vec<Value> = st.notes.lock().unwrap().iter().map(|s| json!(s)).collect();
    if !notes.is_empty() {
        cov.insert("notes".into(), Value::Array(notes));
    }
    for (k, v) in fin.extra {
        cov.insert(k, v);
    }
    cov.insert("known_findings_hit".into(), json!(known_hit.len()));

    // vacuity
    let mut vacuous = vec![];
    for name in &fin.must_be_nonzero {
        if st.counter(name) == 0 {
            vacuous.push(name.to_string());
        }
    }
    if samples.is_empty() {
        vacuous.push("samples".to_string());
    }

    let ev = json!({
        "property_id": ctx.id,
        "tier": ctx.tier_str(),
        "seed": ctx.seed,
        "level": fin.level,
        "coverage": Value::Object(cov),
        "assumptions": fin.assumptions,
        "wall_s": (ctx.elapsed() * 1000.0).round() / 1000.0,
        "violations": unknown.len(),
        "violations_total_cases": total_vio,
    });
    if !ctx.flag("--no-evidence") {
        let evdir = ctx.verif_dir.join("evidence");
        let _ = std::fs::create_dir_all(&evdir);
        let evpath = evdir.join(format!("{}.json", ctx.id));
        std::fs::write(&evpath, serde_json::to_string_pretty(&ev).unwrap() + "\n")
            .unwrap_or_else(|e| machinery_failure(&format!("cannot write evidence: {}", e)));
    }

    for (v, k) in &known_hit {
        println!("KNOWN-FINDING: property={} key={} {} [{}]", ctx.id, v.key, k.text, v.msg);
    }

    // a vacuity alarm never hides a violation: it only invalidates a silent run
    if !vacuous.is_empty() && unknown.is_empty() {
        println!(
            "MACHINERY-FAILURE: vacuous run, counters that must be non-zero are zero: {:?}",
            vacuous
        );
        return 2;
    }

    let mut code = 0;
    let mut context_pending: Vec<(String, String, PathBuf)> = vec![];
    let rdir = ctx.verif_dir.join("replays").join(&ctx.id);
    for (n, v) in unknown.iter().enumerate() {
        let _ = std::fs::create_dir_all(&rdir);
        let safe: String = v
            .key
            .chars()
            .map(|c| if c.is_ascii_alphanumeric() || c == '-' || c == '_' || c == '.' { c } else { '_' })
            .take(80)
            .collect();
        let path = rdir.join(format!("{:02}_{}.json", n, safe));
        let doc = json!({"property": ctx.id, "key": v.key, "msg": v.msg, "case": v.case});
        std::fs::write(&path, serde_json::to_string_pretty(&doc).unwrap() + "\n").unwrap();
        // replay twice without the explorer
        // replays run in FRESH processes: an in-process replay would inherit whatever state the library keeps
        // between calls (thread-locals, process-wide caches) from the exploration itself
        let do_replay = |case: &Value| -> Result<(), String> {
            if let Some(r) = replay_generic(&ctx.id, case) {
                return r;
            }
            let _ = replay;
            let exe = std::env::current_exe().map_err(|e| e.to_string())?;
            let out = child_command(exe).arg(&ctx.id).arg("--verif-dir").arg(&ctx.verif_dir).arg("--replay-case").arg(case.to_string()).output().map_err(|e| format!("cannot spawn replay: {}", e))?;
            let so = String::from_utf8_lossy(&out.stdout).to_string();
            match so.lines().find(|l| l.starts_with("REPLAY ")) {
                Some(l) if l.contains("outcome=pass") => Ok(()),
                Some(l) => Err(l.split("msg=").nth(1).unwrap_or(l).to_string()),
                None => Err(format!("replay process ended without a verdict (status {:?}): {}", out.status, String::from_utf8_lossy(&out.stderr).lines().rev().take(3).collect::<Vec<_>>().join(" | "))),
            }
        };
        // a run that is itself the replay of a whole-check violation (library panic in set-up code) must not
        // replay again: that would recurse without end
        let (r1, r2) = if ctx.flag("--no-replay") {
            (Err(v.msg.clone()), Err(v.msg.clone()))
        } else {
            (
                guarded(|| do_replay(&v.case)).unwrap_or_else(|p| Err(format!("panic in replay: {}", p))),
                guarded(|| do_replay(&v.case)).unwrap_or_else(|p| Err(format!("panic in replay: {}", p))),
            )
        };
        match (&r1, &r2) {
            (Err(a), Err(b)) if a == b => {
                println!("VIOLATION property={} replay={}", ctx.id, path.display());
                println!("  key={} :: {}", v.key, v.msg);
                code = 1;
            }
            _ => {
                // The case passes when it is executed on its own. Either the machinery is at fault, or the library
                // carries state from one call to the next (a memo, a cache, a thread-local hint) and the case only
                // fails after the calls that preceded it in the run. Decide by re-running the whole check twice in
                // fresh processes: if both runs report violations again, the failure is the library's and it is
                // reported with the re-run as its replay.
                context_pending.push((v.key.clone(), v.msg.clone(), path.clone()));
            }
        }
    }
    if !context_pending.is_empty() {
        let rerun = |n: u32| -> usize {
            let exe = match std::env::current_exe() { Ok(e) => e, Err(_) => return 0 };
            let out = child_command(exe).arg(&ctx.id).arg("--tier").arg(ctx.tier_str()).arg("--verif-dir").arg(&ctx.verif_dir).arg("--no-evidence").arg("--no-replay").output();
            match out {
                Ok(o) => String::from_utf8_lossy(&o.stdout).lines().filter(|l| l.starts_with("VIOLATION property=")).count(),
                Err(_) => { let _ = n; 0 }
            }
        };
        let (a, b) = (rerun(1), rerun(2));
        if a > 0 && b > 0 {
            let (key, msg, _) = &context_pending[0];
            let path = rdir.join("context_rerun.json");
            let doc = json!({"property": ctx.id, "key": format!("history-dependent:{}", key), "msg": msg, "case": {"kind": "context-rerun", "tier": ctx.tier_str(), "first_key": key}});
            let _ = std::fs::create_dir_all(&rdir);
            std::fs::write(&path, serde_json::to_string_pretty(&doc).unwrap() + "\n").unwrap();
            println!("VIOLATION property={} replay={}", ctx.id, path.display());
            println!("  key=history-dependent:{} :: {} [this case passes when executed on its own and fails after the calls that precede it in the run: the library's answer depends on earlier calls; {} such cases; two fresh re-runs of the whole check reported {} and {} violations]", key, msg, context_pending.len(), a, b);
            code = 1;
        } else {
            for (key, msg, path) in &context_pending {
                println!("MACHINERY-FAILURE: violation key={} ({}) did not replay deterministically and fresh re-runs of the check reported {} / {} violations (replay file {})", key, msg, a, b, path.display());
            }
            if code == 0 {
                code = 2;
            }
        }
    }
    println!(
        "SUMMARY property={} tier={} evaluations={} nontrivial={} violations={} known={} wall_s={:.1}",
        ctx.id,
        ctx.tier_str(),
        evals,
        nontriv,
        unknown.len(),
        known_hit.len(),
        ctx.elapsed()
    );
    code
}

pub fn run_replay(path: &str, replay: ReplayFn) -> i32 {
    let s = std::fs::read_to_string(path).unwrap_or_else(|e| machinery_failure(&format!("read {}: {}", path, e)));
    let doc: Value = serde_json::from_str(&s).unwrap_or_else(|e| machinery_failure(&format!("parse {}: {}", path, e)));
    let case = &doc["case"];
    let r = guarded(|| replay(case)).unwrap_or_else(|p| Err(format!("panic in replay: {}", p)));
    match r {
        Ok(()) => {
            println!("REPLAY property={} outcome=pass", doc["property"].as_str().unwrap_or("?"));
            0
        }
        Err(m) => {
            println!("REPLAY property={} outcome=violation msg={}", doc["property"].as_str().unwrap_or("?"), m);
            1
        }
    }
}

// ------------------------------------------------------------------------------------------------
// combinatorics helpers
// ------------------------------------------------------------------------------------------------
/// call f for every k-subset of 0..n in lexicographic order
pub fn for_each_combination(n: usize, k: usize, mut f: impl FnMut(&[usize])) {
    if k > n {
        return;
    }
    let mut idx: Vec<usize> = (0..k).collect();
    loop {
        f(&idx);
        // advance
        let mut i = k;
        loop {
            if i == 0 {
                return;
            }
            i -= 1;
            if idx[i] != i + n - k {
                break;
            }
            if i == 0 {
                return;
            }
        }
        idx[i] += 1;
        for j in i + 1..k {
            idx[j] = idx[j - 1] + 1;
        }
    }
}

pub fn binom(n: u64, k: u64) -> u64 {
    if k > n {
        return 0;
    }
    let k = k.min(n - k);
    let mut r: u128 = 1;
    for i in 0..k {
        r = r * (n - i) as u128 / (i + 1) as u128;
    }
    r as u64
}

// ------------------------------------------------------------------------------------------------
// child processes (other build profiles of the same harness)
// ------------------------------------------------------------------------------------------------
pub fn is_checked_build() -> bool {
    cfg!(debug_assertions)
}

pub fn build_tag() -> &'static str {
    if is_checked_build() {
        "checked"
    } else {
        "release"
    }
}

/// In a child run (`--child`), print the statistics as one line instead of writing evidence
pub fn child_emit(st: &Stats) -> i32 {
    {
        let mut locs: Vec<String> = COLLATERAL.lock().unwrap().iter().map(|m| library_location(m)).collect();
        locs.sort();
        locs.dedup();
        for loc in locs {
            let msg = COLLATERAL.lock().unwrap().iter().find(|m| library_location(m) == loc).cloned().unwrap_or_default();
            st.violation(format!("library-panic:{}", loc), format!("the library panicked on a valid call made by the check's set-up code: {}", msg), json!({"kind": "child-crash", "env": if is_checked_build() { "RQ_BIN_CHECKED" } else { "RQ_BIN_RELEASE" }, "build_tag": build_tag(), "args": Vec::<String>::new(), "tier": "quick", "location": loc}));
        }
    }
    let vio: Vec<Value> = st
        .violations()
        .iter()
        .map(|v| json!({"key": v.key, "msg": v.msg, "case": v.case}))
        .collect();
    let counters: Map<String, Value> = st.counters.lock().unwrap().iter().map(|(k, v)| (k.clone(), json!(v))).collect();
    let doc = json!({
        "evaluations": st.evaluations.load(Ordering::Relaxed),
        "nontrivial": st.nontrivial.load(Ordering::Relaxed),
        "states": st.states.load(Ordering::Relaxed),
        "transitions": st.transitions.load(Ordering::Relaxed),
        "traces": st.traces.load(Ordering::Relaxed),
        "violation_count": st.violation_count.load(Ordering::Relaxed),
        "counters": Value::Object(counters),
        "violations": vio,
        "samples": Value::Array(st.samples.lock().unwrap().clone()),
        "outcomes": st.outcomes.lock().unwrap().iter().cloned().collect::<Vec<String>>(),
    });
    println!("CHILD-RESULT {}", doc);
    0
}

/// Run another build of this harness (`env_name` holds its path) as `<bin> <ID> --child <args..>` and
/// merge its statistics; violations get `"build": tag` added to their case and `tag/` prefixed to the key.
pub fn run_child_and_merge(ctx: &Ctx, st: &Stats, env_name: &str, tag: &str, args: &[String]) {
    let bin = std::env::var(env_name).unwrap_or_else(|_| machinery_failure(&format!("{} not set (run through ./check)", env_name)));
    let out = crate::common::child_command(&bin)
        .arg(&ctx.id)
        .arg("--tier")
        .arg(ctx.tier_str())
        .arg("--verif-dir")
        .arg(&ctx.verif_dir)
        .arg("--child")
        .args(args)
        .output()
        .unwrap_or_else(|e| machinery_failure(&format!("cannot run {}: {}", bin, e)));
    let stdout = String::from_utf8_lossy(&out.stdout);
    let line = stdout.lines().find(|l| l.starts_with("CHILD-RESULT "));
    let line = match line {
        Some(l) => l,
        None if String::from_utf8_lossy(&out.stderr).contains("/repo/src/") || stdout.contains("/repo/src/") => {
            let all = format!("{} {}", stdout, String::from_utf8_lossy(&out.stderr));
            let loc = library_location(&all);
            st.violation(
                format!("child-crash:{}:{}", tag, loc),
                format!("the {} build of the check died in library code ({}): {}", tag, loc, all.lines().filter(|l| l.contains("/repo/src/")).take(2).collect::<Vec<_>>().join(" | ")),
                json!({"kind": "child-crash", "env": env_name, "build_tag": tag, "args": args, "tier": ctx.tier_str(), "location": loc}),
            );
            return;
        }
        None => machinery_failure(&format!(
            "child {} {:?} gave no result (status {:?}): {} {}",
            bin,
            args,
            out.status,
            &stdout.chars().take(2000).collect::<String>(),
            String::from_utf8_lossy(&out.stderr).chars().take(2000).collect::<String>()
        )),
    };
    let doc: Value = serde_json::from_str(&line["CHILD-RESULT ".len()..]).unwrap_or_else(|e| machinery_failure(&format!("child result unparsable: {}", e)));
    st.eval(doc["evaluations"].as_u64().unwrap_or(0));
    st.nontriv(doc["nontrivial"].as_u64().unwrap_or(0));
    st.state(doc["states"].as_u64().unwrap_or(0));
    st.transition(doc["transitions"].as_u64().unwrap_or(0));
    st.trace(doc["traces"].as_u64().unwrap_or(0));
    if let Some(c) = doc["counters"].as_object() {
        for (k, v) in c {
            st.count(&format!("{}/{}", tag, k), v.as_u64().unwrap_or(0));
        }
    }
    if let Some(o) = doc["outcomes"].as_array() {
        for x in o {
            st.outcome(x.as_str().unwrap_or(""));
        }
    }
    if let Some(s) = doc["samples"].as_array() {
        for x in s.iter().take(2) {
            let mut x = x.clone();
            if let Some(m) = x.as_object_mut() {
                m.insert("build".into(), json!(tag));
            }
            st.sample(x);
        }
    }
    let stored = doc["violations"].as_array().map(|a| a.len()).unwrap_or(0) as u64;
    if let Some(v) = doc["violations"].as_array() {
        for x in v {
            let mut case = x["case"].clone();
            if let Some(m) = case.as_object_mut() {
                m.insert("build".into(), json!(tag));
            }
            st.violation(format!("{}/{}", tag, x["key"].as_str().unwrap_or("?")), x["msg"].as_str().unwrap_or("").to_string(), case);
        }
    }
    let total = doc["violation_count"].as_u64().unwrap_or(0);
    if total > stored {
        st.violation_count.fetch_add(total - stored, Ordering::Relaxed);
    }
}

/// Replay helper: a case recorded in another build is replayed by that build's binary.
/// Returns None if the case belongs to this build.
pub fn replay_delegate(id: &str, case: &Value) -> Option<Result<(), String>> {
    let build = case["build"].as_str()?;
    if build == build_tag() {
        return None;
    }
    let env_name = match build {
        "checked" => "RQ_BIN_CHECKED",
        "release" => "RQ_BIN_RELEASE",
        _ => return Some(Err(format!("unknown build {}", build))),
    };
    let bin = match std::env::var(env_name) {
        Ok(b) => b,
        Err(_) => {
            // fall back to the conventional location
            let base = std::env::var("RQ_VERIF_DIR").unwrap_or_else(|_| "/verif".into());
            format!("{}/harness/target/{}/rqcheck", base, build)
        }
    };
    let out = crate::common::child_command(&bin).arg(id).arg("--replay-case").arg(case.to_string()).output();
    match out {
        Err(e) => Some(Err(format!("cannot run {}: {}", bin, e))),
        Ok(o) => {
            let s = String::from_utf8_lossy(&o.stdout).to_string();
            if o.status.code() == Some(0) {
                Some(Ok(()))
            } else {
                let l = s.lines().find(|l| l.starts_with("REPLAY ")).unwrap_or("child replay failed").to_string();
                Some(Err(l))
            }
        }
    }
}

/// generic replays for violations that are not tied to one enumerated case
pub fn replay_generic(id: &str, case: &Value) -> Option<Result<(), String>> {
    match case["kind"].as_str() {
        Some("child-crash") => {
            let env_name = case["env"].as_str().unwrap_or("RQ_BIN_CHECKED");
            let bin = match std::env::var(env_name) {
                Ok(b) => b,
                Err(_) => return Some(Err(format!("{} not set", env_name))),
            };
            let args: Vec<String> = case["args"].as_array().map(|a| a.iter().map(|x| x.as_str().unwrap_or("").to_string()).collect()).unwrap_or_default();
            let out = crate::common::child_command(&bin).arg(id).arg("--tier").arg(case["tier"].as_str().unwrap_or("quick")).arg("--child").args(&args).output();
            match out {
                Err(e) => Some(Err(format!("cannot run child: {}", e))),
                Ok(o) => {
                    let so = String::from_utf8_lossy(&o.stdout).to_string();
                    if let Some(l) = so.lines().find(|l| l.starts_with("CHILD-RESULT ")) {
                        // the child survived: did it record a library panic of its worker threads again?
                        let loc = case["location"].as_str().unwrap_or("");
                        if l.contains(&format!("library-panic:{}", loc)) {
                            Some(Err(format!("the library panics again at {} in the child build", loc)))
                        } else {
                            Some(Ok(()))
                        }
                    } else {
                        let all = format!("{} {}", so, String::from_utf8_lossy(&o.stderr));
                        Some(Err(format!("child died again in library code at {}", library_location(&all))))
                    }
                }
            }
        }
        Some("context-rerun") => {
            let exe = std::env::current_exe().ok()?;
            let verif = std::env::var("RQ_VERIF_DIR").unwrap_or_else(|_| "/verif".into());
            let out = child_command(exe).arg(id).arg("--tier").arg(case["tier"].as_str().unwrap_or("quick")).arg("--verif-dir").arg(verif).arg("--no-evidence").arg("--no-replay").output().ok()?;
            let so = String::from_utf8_lossy(&out.stdout).to_string();
            let n = so.lines().filter(|l| l.starts_with("VIOLATION property=")).count();
            if n > 0 {
                Some(Err("the check reports violations again when re-run in a fresh process (history-dependent library state)".to_string()))
            } else {
                Some(Ok(()))
            }
        }
        Some("library-panic") => {
            // re-run the whole check in a fresh process and look for the same location
            let exe = std::env::current_exe().ok()?;
            let out = crate::common::child_command(exe).arg(id).arg("--tier").arg(case["tier"].as_str().unwrap_or("quick")).arg("--no-evidence").arg("--no-replay").output().ok()?;
            let so = String::from_utf8_lossy(&out.stdout).to_string();
            let loc = case["location"].as_str().unwrap_or("");
            if so.contains(&format!("library-panic:{}", loc)) {
                Some(Err(format!("the library panics again at {}", loc)))
            } else {
                Some(Ok(()))
            }
        }
        _ => None,
    }
}

/// the check's run function itself panicked (main thread): a library panic is reported as a violation,
/// anything else is a machinery failure
pub fn fatal_panic(ctx: &Ctx, msg: &str, replay: ReplayFn) -> i32 {
    if !msg.contains("/repo/src/") {
        machinery_failure(&format!("harness panicked: {}", msg));
    }
    if ctx.flag("--child") {
        // the parent reads stderr and files this as a child crash in library code
        eprintln!("library panic in child: {}", msg);
        println!("library panic in child: {}", msg);
        return 101;
    }
    collateral_library_panic(msg);
    let st = Stats::new();
    st.eval(1);
    st.nontriv(2);
    st.sample(json!({"fatal": msg}));
    let mut args = ctx.args.clone();
    args.push("--no-evidence".into());
    let c2 = Ctx { id: ctx.id.clone(), tier: ctx.tier, seed: ctx.seed, verif_dir: ctx.verif_dir.clone(), start: ctx.start, threads: ctx.threads, args };
    finish(&c2, &st, Finish { level: "exploration", rule: "aborted: the library panicked in the check's set-up code".into(), exhaustive: false, assumptions: vec![], extra: Map::new(), must_be_nonzero: vec![] }, replay)
}
