//! C11 — bulk kernels equal element-wise field operations on every code path.
use crate::common::*;
use crate::kern::*;
use raptorq::verif::verif_kernels as vk;
use serde_json::{json, Map, Value};
use std::collections::BTreeMap;

pub fn special_lengths(maxlen: usize) -> Vec<usize> {
    let mut v: Vec<usize> = (0..=70).collect();
    v.extend([127, 128, 129, 130, 191, 192, 193, 255, 256, 257, 320]);
    v.retain(|&l| l <= maxlen);
    v
}

/// the whole grid; `exact` = C12 placement (exact-size heap operands, offsets collapse)
pub fn grid(ctx: &Ctx, st: &Stats, exact: bool) {
    // the release build runs the full grid in both tiers (about 2 s); the debug-assertions build a reduced one in the quick tier
    let quick = is_checked_build() && ctx.quick();
    let maxlen: usize = if quick { 256 } else { 320 };
    let doffs: Vec<usize> = if exact { vec![0] } else if quick { vec![0, 1, 2, 7, 8, 15, 16, 31, 32, 33, 63] } else { (0..64).collect() };
    let soffs: Vec<usize> = if exact { vec![0] } else { vec![0, 1, 7, 8, 31, 33, 63] };
    let kinds = kinds();
    let small_scalars = [0u8, 1, 2, 0x1D, 0x80, 0xFF];
    let special = special_lengths(maxlen.max(if quick { 257 } else { 320 }));
    // work units: (op, kind, len)
    let mut units: Vec<(Op, u8, usize)> = vec![];
    let mut lens: Vec<usize> = (0..=maxlen).collect();
    for &l in &special {
        if !lens.contains(&l) {
            lens.push(l);
        }
    }
    // grid F: long operands (several iterations of any unrolled vector loop, then every tail residue)
    let long_lens: Vec<usize> = if quick {
        vec![383, 384, 385, 511, 512, 513, 1023, 1024, 1025]
    } else if ctx.quick() {
        (321..=1600).chain([2047, 2048, 2049, 4095, 4096, 4097]).collect()
    } else {
        (321..=2200).chain([4095, 4096, 4097, 8191, 8192, 8193, 65535, 65536, 65537]).collect()
    };
    lens.extend(long_lens.iter().copied());
    for op in Op::ALL {
        for &k in &kinds {
            for &l in &lens {
                units.push((op, k, l));
            }
        }
    }
    par_for(units.len(), |ui| {
        let (op, kind, len) = units[ui];
        let mut sc = Scratch::new(len);
        let mut bufs = ExactBufs::new();
        let mut local: BTreeMap<&'static str, u64> = BTreeMap::new();
        let mut calls = 0u64;
        let mut fails = 0u32;
        let mut run = |c: &Case, d0: &[u8], s0: &[u8], sc: &mut Scratch| {
            if !scalar_ok(c.op, c.kind, c.scalar) {
                return;
            }
            calls += 1;
            let r = if exact { eval_exact_cached(c, &mut bufs, d0, s0) } else { eval_offsets(c, sc, d0, s0) };
            if let Err(m) = r {
                fails += 1;
                if fails <= 2 {
                    st.violation(c.key(), format!("{} [{}] len {} dest+{} src+{} scalar {:#04x}: {}", c.op.name(), kind_name(c.kind), c.len, c.doff, c.soff, c.scalar, m), c.json());
                } else {
                    st.violation_count.fetch_add(1, std::sync::atomic::Ordering::Relaxed);
                }
            }
        };
        let bin = op == Op::FmaBin;
        // --- grid A: alignments
        if len <= maxlen {
            let pairs: [(&str, &str); 2] = if bin { [("pos", "lcg"), ("ff", "ff")] } else { [("pos", "lcg"), ("ff", "ff")] };
            for (dc, scn) in pairs {
                let d0 = content(dc, len, 1);
                let s0 = if bin { bin_content(scn, len) } else { content(scn, len, 2) };
                for &doff in &doffs {
                    for &soff in &soffs {
                        if (op == Op::Mul || bin) && soff != soffs[0] {
                            continue; // no byte source operand whose alignment could matter
                        }
                        let scalars: &[u8] = if op == Op::Add { &[0] } else { &small_scalars };
                        for &s in scalars {
                            let c = Case { op, kind, len, doff, soff, dcontent: dc.into(), scontent: scn.into(), scalar: s };
                            run(&c, &d0, &s0, &mut sc);
                        }
                    }
                }
            }
            *local.entry("gridA_units").or_insert(0) += 1;
        }
        // --- grid B: all 256 scalars on the special lengths
        if special.contains(&len) && op != Op::Add {
            let d0 = content("pos", len, 1);
            let s0 = if bin { bin_content("lcg", len) } else { content("lcg", len, 2) };
            let ds: &[usize] = if exact { &[0] } else { &[0, 1, 63] };
            let ss: &[usize] = if exact || op == Op::Mul || bin { &[0] } else { &[0, 33] };
            for &doff in ds {
                for &soff in ss {
                    for s in 0..=255u8 {
                        let c = Case { op, kind, len, doff, soff, dcontent: "pos".into(), scontent: "lcg".into(), scalar: s };
                        run(&c, &d0, &s0, &mut sc);
                    }
                }
            }
            *local.entry("gridB_units").or_insert(0) += 1;
        }
        // --- grid C: every lane sees every byte value with every scalar
        if (op == Op::Mul || op == Op::Fma) && len == *special.last().unwrap() {
            for r in 0..52 {
                let name = format!("rot:{}", r);
                let rot = content(&name, len, 0);
                let pos = content("pos", len, 1);
                for s in 0..=255u8 {
                    let c = if op == Op::Mul {
                        Case { op, kind, len, doff: 0, soff: 0, dcontent: name.clone(), scontent: "00".into(), scalar: s }
                    } else {
                        Case { op, kind, len, doff: 0, soff: 0, dcontent: "pos".into(), scontent: name.clone(), scalar: s }
                    };
                    if op == Op::Mul {
                        run(&c, &rot, &pos, &mut sc);
                    } else {
                        run(&c, &pos, &rot, &mut sc);
                    }
                }
            }
            *local.entry("gridC_lane_value_units").or_insert(0) += 1;
        }
        // --- grid D: one-hot at every position
        if len <= 130 && len > 0 {
            for p in 0..len {
                let name = format!("onehot:{}", p);
                for &doff in if exact { &[0usize][..] } else { &[0usize, 1][..] } {
                    for s in [2u8, 0xFF] {
                        let (c, d0, s0) = match op {
                            Op::Mul => (Case { op, kind, len, doff, soff: 0, dcontent: name.clone(), scontent: "00".into(), scalar: s }, content(&name, len, 0), vec![0; len]),
                            Op::FmaBin => (Case { op, kind, len, doff, soff: 0, dcontent: "00".into(), scontent: name.clone(), scalar: s }, vec![0; len], bin_content(&name, len)),
                            _ => (Case { op, kind, len, doff, soff: 0, dcontent: "00".into(), scontent: name.clone(), scalar: s }, vec![0; len], content(&name, len, 0)),
                        };
                        run(&c, &d0, &s0, &mut sc);
                        if op == Op::Add {
                            break;
                        }
                    }
                }
            }
            *local.entry("gridD_onehot_units").or_insert(0) += 1;
        }
        // --- grid E: binary patterns (all padding-bit counts)
        if bin && len <= maxlen {
            let d0 = content("lcg", len, 3);
            for pat in ["00", "ff", "alt", "alt3", "lcg"] {
                let s0 = bin_content(pat, len);
                for &doff in &doffs {
                    for s in [0u8, 1, 2, 0xFF] {
                        let c = Case { op, kind, len, doff, soff: 0, dcontent: "lcg".into(), scontent: pat.into(), scalar: s };
                        run(&c, &d0, &s0, &mut sc);
                    }
                }
            }
            *local.entry("gridE_binary_units").or_insert(0) += 1;
        }
        // --- grid F: long operands
        if len > maxlen {
            let ds: &[usize] = if exact { &[0] } else { &[0, 1, 63] };
            let ss: &[usize] = if exact || op == Op::Mul || bin { &[0] } else { &[0, 33] };
            let mut srcs: Vec<(String, Vec<u8>)> = vec![];
            if bin {
                for pat in ["lcg", "alt3", "ff", "00"] {
                    srcs.push((pat.to_string(), bin_content(pat, len)));
                }
                for p in [0, len / 2, len - 65, len - 64, len - 1] {
                    let name = format!("onehot:{}", p);
                    srcs.push((name.clone(), bin_content(&name, len)));
                }
            } else {
                srcs.push(("lcg".to_string(), content("lcg", len, 2)));
                srcs.push(("ff".to_string(), content("ff", len, 2)));
            }
            let d0 = content("pos", len, 1);
            for (sname, s0) in &srcs {
                for &doff in ds {
                    for &soff in ss {
                        let scalars: &[u8] = if op == Op::Add { &[0] } else { &small_scalars };
                        for &sv in scalars {
                            let c = Case { op, kind, len, doff, soff, dcontent: "pos".into(), scontent: sname.clone(), scalar: sv };
                            run(&c, &d0, s0, &mut sc);
                        }
                    }
                }
            }
            *local.entry("gridF_long_units").or_insert(0) += 1;
        }
        if std::env::var("RQ_PROGRESS").is_ok() {
            eprintln!("unit {} {:?} {} len {} calls {} t={:.2} allocs={}", ui, op, kind_name(kind), len, calls, ctx.elapsed(), crate::pageheap::GUARDED.load(std::sync::atomic::Ordering::Relaxed));
        }
        st.eval(calls);
        st.count(&format!("calls_{}", kind_name(kind)), calls);
        if len >= 64 {
            st.count(&format!("calls_len>=64_{}", kind_name(kind)), calls);
        }
        if len % 64 != 0 {
            st.count("calls_with_scalar_tail", calls);
        }
        st.merge_counters(&local);
        st.nontriv(1);
    });
    for &k in &kinds {
        st.outcome(kind_name(k));
    }
}

pub fn replay(case: &Value) -> Result<(), String> {
    if let Some(r) = replay_delegate("C11", case) {
        return r;
    }
    if let Some(env_name) = case["nostd_grid"].as_str() {
        let bin = std::env::var(env_name).map_err(|_| format!("{} not set", env_name))?;
        let out = crate::common::child_command(&bin).arg("--kernel-grid").arg("320").output().map_err(|e| e.to_string())?;
        let so = String::from_utf8_lossy(&out.stdout).to_string();
        if let Some(l) = so.lines().find(|l| l.starts_with("GRID-FAIL")) {
            return Err(l.to_string());
        }
        if !so.lines().any(|l| l.starts_with("GRID-DONE")) {
            return Err("kernel grid crashed".into());
        }
        return Ok(());
    }
    replay_case(case, false)
}

pub fn run(ctx: &Ctx) -> i32 {
    let st = Stats::new();
    grid(ctx, &st, false);
    if ctx.flag("--child") {
        return child_emit(&st);
    }
    run_child_and_merge(ctx, &st, "RQ_BIN_CHECKED", "checked", &[]);
    // the dispatchers' real portable path: the no_std build of the library (release and debug-assertions)
    for env_name in ["RQ_BIN_NOSTD", "RQ_BIN_NOSTD_CHECKED"] {
        let bin = std::env::var(env_name).unwrap_or_else(|_| machinery_failure(&format!("{} not set (run through ./check)", env_name)));
        let out = crate::common::child_command(&bin).arg("--kernel-grid").arg("320").output().unwrap_or_else(|e| machinery_failure(&format!("cannot run {}: {}", bin, e)));
        let so = String::from_utf8_lossy(&out.stdout).to_string();
        let done = so.lines().find(|l| l.starts_with("GRID-DONE"));
        let tag = if env_name.ends_with("CHECKED") { "checked/no_std" } else { "release/no_std" };
        for l in so.lines().filter(|l| l.starts_with("GRID-FAIL")) {
            st.violation(format!("nostd-grid:{}", l), format!("public dispatcher in the no_std build: {}", l), json!({"nostd_grid": env_name}));
        }
        match done {
            Some(d) => {
                let calls: u64 = d.split("calls=").nth(1).and_then(|x| x.split_whitespace().next()).and_then(|x| x.parse().ok()).unwrap_or(0);
                st.eval(calls);
                st.count(&format!("calls_dispatcher_{}", tag), calls);
            }
            None => {
                // a panic/crash of the portable path on valid operands
                let se = String::from_utf8_lossy(&out.stderr).to_string();
                st.violation(format!("nostd-grid-crash:{}", env_name), format!("kernel grid through the public dispatchers crashed in the {} build: {}", tag, se.lines().rev().take(5).collect::<Vec<_>>().join(" | ")), json!({"nostd_grid": env_name}));
            }
        }
    }
    let c = Case { op: Op::Fma, kind: vk::AVX2, len: 67, doff: 63, soff: 33, dcontent: "pos".into(), scontent: "lcg".into(), scalar: 0x1D };
    st.sample(c.json());
    let c = Case { op: Op::FmaBin, kind: vk::AVX512, len: 96, doff: 1, soff: 0, dcontent: "lcg".into(), scontent: "alt3".into(), scalar: 0xFF };
    st.sample(c.json());
    let c = Case { op: Op::Mul, kind: vk::SSSE3, len: 320, doff: 0, soff: 0, dcontent: "rot:17".into(), scontent: "00".into(), scalar: 0x80 };
    st.sample(c.json());
    let ml = 320;
    finish(ctx, &st, Finish {
        level: "exploration",
        rule: format!("every compiled kernel (avx512, avx2, ssse3, portable, each called individually through the hook) and the public dispatcher x 4 operations x every length 0..={} x destination offsets {} x source offsets {{0,1,7,8,31,33,63}} x contents x scalars {{0,1,2,0x1D,0x80,0xFF}} (grid A); all 256 scalars on lengths 0..=70,127..=130,191..=193,255..=257,320 (grid B); 52 rotations x 256 scalars so that every lane sees every byte value with every scalar (grid C); one-hot at every position for len<=130 (grid D); packed bit vectors of every length (all padding-bit counts) with patterns 00/ff/alt/alt3/lcg (grid E); long operands: every length 321..=1600 and around 2048, 4096 (thorough: ..=2200 and 4095..4097, 8191..8193, 65535..65537) x offsets {{0,1,63}} x {{0,33}} x 6 scalars, bit vectors with dense, alternating, empty and one-hot contents (grid F). Oracle: element-wise reference field arithmetic, canaries around the destination, source unchanged. Repeated in the debug-assertions build (documented scalar preconditions of the dispatchers respected there), and through the public dispatchers of the no_std build of the library (their real portable path; lengths 0..=320, offsets {{0,1,7}}, all scalars on boundary lengths, bit patterns incl. one-hot). distinct_nontrivial = (operation, kernel, length) units.", ml, "0..63 (debug-assertions build in the quick tier: 11 offsets, lengths <= 256)"),
        exhaustive: false,
        assumptions: vec!["NEON kernels cannot execute on this x86 host".into(), "lengths above 1100 (thorough: 2200) only at the listed powers of two".into()],
        extra: Map::new(),
        must_be_nonzero: vec!["calls_dispatcher", "calls_avx512", "calls_avx2", "calls_ssse3", "calls_portable", "calls_len>=64_avx512", "calls_len>=64_avx2", "calls_with_scalar_tail", "gridC_lane_value_units", "gridE_binary_units", "gridF_long_units", "checked/calls_avx2", "calls_dispatcher_release/no_std", "calls_dispatcher_checked/no_std"],
    }, replay)
}
