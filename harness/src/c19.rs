//! C19 — the configuration constructor enforces the RFC's limits.
use crate::common::*;
use crate::rfcref;
use raptorq::ObjectTransmissionInformation as Oti;
use serde_json::{json, Map, Value};
use std::collections::BTreeMap;

/// Ok(kind) where kind is "accept"/"refuse"; Err on disagreement
fn check(f: u64, t: u16, z: u8, n: u16, al: u8) -> Result<&'static str, String> {
    let want = rfcref::oti_accept(f, t as u64, z as u64, n as u64, al as u64);
    let got = guarded(|| Oti::new(f, t, z, n, al));
    match (want, got) {
        (true, Ok(o)) => {
            if o.transfer_length() != f || o.symbol_size() != t || o.source_blocks() != z || o.sub_blocks() != n || o.symbol_alignment() != al {
                return Err(format!("new({}, {}, {}, {}, {}) reports ({}, {}, {}, {}, {})", f, t, z, n, al, o.transfer_length(), o.symbol_size(), o.source_blocks(), o.sub_blocks(), o.symbol_alignment()));
            }
            Ok("accept")
        }
        (false, Err(_)) => Ok("refuse"),
        (true, Err(p)) => Err(format!("new({}, {}, {}, {}, {}) refused although all documented limits hold: {}", f, t, z, n, al, p)),
        (false, Ok(_)) => {
            let kt = (f as u128 + t as u128 - 1) / t as u128;
            Err(format!("new({}, {}, {}, {}, {}) accepted although {}", f, t, z, n, al,
                if f > rfcref::MAX_TRANSFER_LENGTH { "F > 942574504275".to_string() }
                else if t % al as u16 != 0 { "Al does not divide T".to_string() }
                else { format!("ceil(ceil(F/T)/Z) = {} > 56403", (kt + z as u128 - 1) / z as u128) }))
        }
    }
}

pub fn replay(case: &Value) -> Result<(), String> {
    if let Some(r) = replay_delegate("C19", case) {
        return r;
    }
    check(case["F"].as_u64().unwrap(), case["T"].as_u64().unwrap() as u16, case["Z"].as_u64().unwrap() as u8, case["N"].as_u64().unwrap() as u16, case["Al"].as_u64().unwrap() as u8).map(|_| ())
}

fn f_values(t: u64, z: u64) -> Vec<u64> {
    let mut v = vec![1u64, t, t + 1];
    let lim = 56403 * z * t;
    for d in [-1i64, 0, 1] {
        v.push((lim as i64 + d) as u64);
        v.push((rfcref::MAX_TRANSFER_LENGTH as i64 + d) as u64);
    }
    v.push((1u64 << 40) - 1);
    // values whose symbol count ceil(F/T) is just around a multiple of 2^32 (narrowing casts)
    let mut m = 1u64;
    while (1u64 << 32) * m * t <= rfcref::MAX_TRANSFER_LENGTH {
        // r < 0: the numerator ceil(F/T) + Z - 1 of the per-block ceiling passes 2^32 although ceil(F/T) does not
        let rs: Vec<i64> = if m <= 2 {
            vec![-(z as i64) - 1, -(z as i64), -(z as i64) + 1, -(z as i64) + 2, -255, -2, -1, 0, 1, 5, 56403 * z as i64, 56403 * z as i64 + 1]
        } else {
            vec![-1, 0, 1, 5, 56403 * z as i64, 56403 * z as i64 + 1]
        };
        for r in rs {
            let kt = ((1u64 << 32) * m) as i64 + r;
            if kt <= 0 { continue; }
            let base = kt as u64 * t; // largest F with ceil(F/T) = kt
            v.push(base);
            v.push(base - 1);
            if r <= 1 && m <= 2 {
                v.push(base - t + 1); // smallest F with ceil(F/T) = kt
            }
        }
        m = if m < 4 { m + 1 } else { m * 2 };
    }
    // symbols-per-block count around multiples of 2^16 (the limit 56403 fits 16 bits: a 16-bit narrowing would wrap here)
    for mm in [1u64, 2, 65536] {
        for r in [0u64, 1, 56403] {
            let kt = (65536 * mm + r) * z;
            v.push(kt * t);
        }
    }
    // symbols-per-block count around 2^32 (second narrowing): ceil(Kt/Z) = 2^32 + small
    let kt = ((1u128 << 32) + 3) * z as u128;
    if kt * (t as u128) <= (1u128 << 40) { v.push((kt * t as u128) as u64); }
    v.sort_unstable();
    v.dedup();
    v.push(0); // an empty object: no symbols, but symbol size and alignment are still checked
    v.retain(|&f| f < (1u64 << 40));
    v
}

fn smallest_non_divisor(t: u64) -> u64 {
    let mut a = 2;
    while t % a == 0 { a += 1; }
    a
}

pub fn run(ctx: &Ctx) -> i32 {
    let st = Stats::new();
    let ts: Vec<u16> = if ctx.quick() {
        let mut v: Vec<u16> = (1..=if is_checked_build() { 64 } else { 300 }).collect();
        v.extend_from_slice(&[511, 512, 513, 1023, 1024, 1025, 1280, 4096, 16383, 16384, 32767, 32768, 32769, 65534, 65535]);
        v
    } else {
        (1..=65535).collect()
    };
    par_for(ts.len(), |ti| {
        let t = ts[ti];
        let mut local: BTreeMap<&'static str, u64> = BTreeMap::new();
        let mut evals = 0u64;
        let mut bad = 0u32;
        let mut als: Vec<u8> = vec![1];
        if t <= 255 { als.push(t as u8); }
        let nd = smallest_non_divisor(t as u64);
        if nd <= 255 { als.push(nd as u8); }
        if ctx.quick() || t <= 300 {
            // a proper divisor and 255
            for d in 2..=255u16 { if t % d == 0 && d != t { als.push(d as u8); break; } }
            als.push(255);
        }
        als.sort_unstable();
        als.dedup();
        let ns: &[u16] = if (ctx.quick() || t <= 300) && !is_checked_build() { &[1, 65535] } else { &[1] };
        for z in 1..=255u8 {
            for f in f_values(t as u64, z as u64) {
                for &al in &als {
                    for &n in ns {
                        evals += 1;
                        // non-trivial: the symbols-per-block limit (incl. the 2^32 wrap) is what decides
                        if f <= rfcref::MAX_TRANSFER_LENGTH && t % (al as u16) == 0 {
                            *local.entry("decided_by_block_limit").or_insert(0) += 1;
                        }
                        match check(f, t, z, n, al) {
                            Ok(k) => *local.entry(k).or_insert(0) += 1,
                            Err(m) => {
                                bad += 1;
                                if bad <= 2 {
                                    st.violation(format!("{}:{}:{}:{}:{}", f, t, z, n, al), m, json!({"F":f,"T":t,"Z":z,"N":n,"Al":al}));
                                } else {
                                    st.violation_count.fetch_add(1, std::sync::atomic::Ordering::Relaxed);
                                }
                                *local.entry("disagree").or_insert(0) += 1;
                            }
                        }
                    }
                }
            }
        }
        st.eval(evals);
        st.merge_counters(&local);
    });
    if ctx.flag("--child") {
        return child_emit(&st);
    }
    // the same grid in the build with overflow checks: a valid configuration must not be refused by an
    // arithmetic-overflow panic, and refusals must not depend on the build
    run_child_and_merge(ctx, &st, "RQ_BIN_CHECKED", "checked", &[]);
    // distinct non-trivial: points where the 56403-symbols-per-block limit or the 2^32 narrowing is what decides
    st.nontriv(st.counter("decided_by_block_limit"));
    st.outcome("accept");
    st.outcome("refuse");
    for (f, t, z, n, al) in [(1u64 << 32 | 5, 1u16, 1u8, 1u16, 1u8), (56403 * 255, 1, 255, 1, 1), (56403 * 255 + 1, 1, 255, 1, 1), (942574504275, 65535, 255, 1, 1), (10, 6, 1, 1, 4)] {
        st.sample(json!({"F":f,"T":t,"Z":z,"N":n,"Al":al,"reference_accepts":rfcref::oti_accept(f,t as u64,z as u64,n as u64,al as u64),"impl":format!("{:?}", guarded(|| Oti::new(f,t,z,n,al)).map(|_| "accepted").map_err(|_| "refused"))}));
    }
    finish(ctx, &st, Finish {
        level: "exploration",
        rule: format!("grid: T in {} x Z in 1..=255 x F in B_F(T,Z) (0, 1, T, T+1, 56403*Z*T+{{-1,0,1}}, 942574504275+{{-1,0,1}}, 2^40-1, every F with ceil(F/T) = 2^32*m + r, r in {{-Z-1..-Z+2,-255,-254,-2,-1,0,1,5,56403Z-1..56403Z+1}} (largest, largest-1 and smallest such F), and ceil(F/T)/Z around multiples of 2^16) x Al in {{1, T, smallest non-divisor of T, (a proper divisor, 255)}} x N in {{1,(65535)}}; oracle = u128 predicate F<=942574504275 && Al|T && ceil(ceil(F/T)/Z)<=56403; accessors must echo; the whole grid again in the overflow-checking build. distinct_nontrivial = points (all distinct) where F <= 942574504275 and Al | T, so that the symbols-per-block limit incl. the 2^32 wrap-around decides.", if ctx.quick() { "1..=300 and 15 boundary values".to_string() } else { "1..=65535 (all)".to_string() }),
        exhaustive: false,
        assumptions: vec!["limits as documented in ObjectTransmissionInformation::new (RFC 6330 errata 5548: F <= 942574504275; 4.4.1.2: ceil(ceil(F/T)/Z) <= 56403)".into(), "F off the boundary set is not enumerated: the predicate is monotone in F between the listed breakpoints (for the reference; for the implementation that is exactly what the 2^32 wrap points probe)".into()],
        extra: Map::new(),
        must_be_nonzero: vec!["accept", "refuse"],
    }, replay)
}
