//! C01 — decoding never returns anything but the original object.
//! (A) configuration box x every subset of a per-object packet universe through a real Decoder (clone per branch),
//!     in canonical and in reverse order. (B) every block size with deviation-bounded histories.
use crate::codec::*;
use crate::common::*;
use crate::explore::*;
use crate::rfcref;
use raptorq::{Decoder, Encoder, EncodingPacket, ObjectTransmissionInformation as Oti};
use serde_json::{json, Map, Value};

struct ObjUniverse {
    cfg: (u64, u16, u8, u16, u8),
    oti: Oti,
    data: Vec<u8>,
    packets: Vec<EncodingPacket>,
    /// per packet: Some((block, esi)) if it is a source packet
    src: Vec<Option<(usize, u32)>>,
    ks: Vec<u32>,
}

fn make_obj_universe(f: u64, t: u16, z: u8, n: u16, al: u8, reverse: bool) -> Result<ObjUniverse, String> {
    let data = data_pos(f as usize);
    let oti = Oti::new(f, t, z, n, al);
    let enc = guarded(|| Encoder::new(&data, oti)).map_err(|e| format!("Encoder::new panicked: {}", e))?;
    let mut packets = vec![];
    let mut src = vec![];
    let mut ks = vec![];
    for (b, be) in enc.get_block_encoders().iter().enumerate() {
        let sp = be.source_packets();
        let k = sp.len() as u32;
        ks.push(k);
        for (i, p) in sp.into_iter().enumerate() {
            packets.push(p);
            src.push(Some((b, i as u32)));
        }
        for p in be.repair_packets(0, 2) {
            packets.push(p);
            src.push(None);
        }
        packets.push(repair_packet(be, k, (1 << 24) - 1));
        src.push(None);
    }
    if reverse {
        packets.reverse();
        src.reverse();
    }
    Ok(ObjUniverse { cfg: (f, t, z, n, al), oti, data, packets, src, ks })
}

#[derive(Clone)]
struct ObjState {
    dec: Decoder,
    have: Vec<u32>, // per block: number of distinct source packets delivered
}

#[derive(Default)]
struct ObjLocal {
    nodes: u64,
    some: u64,
    none: u64,
    all_source_nodes: u64,
    repair_used: u64,
}

struct ObjModel<'a> {
    u: &'a ObjUniverse,
    st: &'a Stats,
    reverse: bool,
    /// every delivered packet is delivered twice in a row (multisets, not just sets)
    dup: bool,
}

impl ObjModel<'_> {
    fn report(&self, path: &[usize], msg: String) {
        let ids: Vec<(u8, u32)> = path.iter().map(|&i| (self.u.packets[i].payload_id().source_block_number(), self.u.packets[i].payload_id().encoding_symbol_id())).collect();
        let c = self.u.cfg;
        self.st.violation(
            format!("obj:{}:{}:{}:{}:{}:{}{}:{:?}", c.0, c.1, c.2, c.3, c.4, self.reverse, if self.dup { "+dup" } else { "" }, path),
            format!("config (F,T,Z,N,Al)={:?} after delivering (SBN,ESI) {:?}: {}", c, ids, msg),
            json!({"kind":"object","F":c.0,"T":c.1,"Z":c.2,"N":c.3,"Al":c.4,"reverse":self.reverse,"dup":self.dup,"path":path}),
        );
    }
}

impl Lattice for ObjModel<'_> {
    type State = ObjState;
    type Local = ObjLocal;
    fn n(&self) -> usize {
        self.u.packets.len()
    }
    fn init(&self) -> ObjState {
        ObjState { dec: Decoder::new(self.u.oti), have: vec![0; self.u.ks.len()] }
    }
    fn skip(&self, _: &mut ObjState, _: usize, _: usize) -> bool {
        true
    }
    fn deliver(&self, s: &mut ObjState, i: usize, path: &[usize], check: bool, l: &mut ObjLocal) {
        let u = self.u;
        let mut r = guarded(|| s.dec.decode(u.packets[i].clone()));
        if self.dup {
            let r2 = guarded(|| s.dec.decode(u.packets[i].clone()));
            if check {
                match (&r, &r2) {
                    (Ok(Some(a)), Ok(b)) if b.as_ref() != Some(a) => self.report(path, "delivering the last packet a second time changed the answer".into()),
                    (Ok(Some(a)), _) if a != &u.data => self.report(path, "first delivery of the last packet returned a wrong object".into()),
                    (Err(p), _) => self.report(path, format!("decode panicked: {}", p)),
                    _ => {}
                }
            }
            r = r2;
        }
        if let Some((b, _)) = u.src[i] {
            s.have[b] += 1;
        }
        if !check {
            return;
        }
        l.nodes += 1;
        let all_src = s.have.iter().zip(u.ks.iter()).all(|(h, k)| h == k);
        if all_src {
            l.all_source_nodes += 1;
        }
        match r {
            Err(p) => self.report(path, format!("decode panicked: {}", p)),
            Ok(None) => {
                l.none += 1;
                if all_src {
                    self.report(path, "all source packets of every block delivered, but the decoder answers 'not yet'".into());
                }
            }
            Ok(Some(d)) => {
                l.some += 1;
                if !all_src {
                    l.repair_used += 1;
                }
                if d.len() as u64 != u.cfg.0 {
                    self.report(path, format!("returned {} bytes, transfer length is {}", d.len(), u.cfg.0));
                } else if d != u.data {
                    let pos = d.iter().zip(u.data.iter()).position(|(a, b)| a != b);
                    self.report(path, format!("returned wrong bytes (first difference at offset {:?})", pos));
                }
            }
        }
    }
    fn merge(&self, l: ObjLocal) {
        let st = self.st;
        st.eval(l.nodes);
        st.count("A_nodes", l.nodes);
        st.count("A_answers_some", l.some);
        st.count("A_answers_none", l.none);
        st.count("A_nodes_all_source", l.all_source_nodes);
        st.count("A_decoded_using_repair", l.repair_used);
        st.nontriv(l.repair_used);
    }
}

fn run_config(cfg: (u64, u16, u8, u16, u8), reverse: bool, dup: bool, st: &Stats) {
    match make_obj_universe(cfg.0, cfg.1, cfg.2, cfg.3, cfg.4, reverse) {
        Err(m) => st.violation(format!("objbuild:{:?}", cfg), m, json!({"kind":"object","F":cfg.0,"T":cfg.1,"Z":cfg.2,"N":cfg.3,"Al":cfg.4,"reverse":reverse,"dup":dup,"path":[]})),
        Ok(u) => {
            let m = ObjModel { u: &u, st, reverse, dup };
            // sequential inside one configuration; configurations are spread over the threads
            let mut local = ObjLocal::default();
            let s0 = m.init();
            fn rec(m: &ObjModel, s: &ObjState, start: usize, path: &mut Vec<usize>, l: &mut ObjLocal) {
                for i in start..m.n() {
                    let mut s2 = s.clone();
                    path.push(i);
                    m.deliver(&mut s2, i, path, true, l);
                    rec(m, &s2, i + 1, path, l);
                    path.pop();
                }
            }
            rec(&m, &s0, 0, &mut vec![], &mut local);
            m.merge(local);
        }
    }
}

fn replay_object(case: &Value) -> Result<(), String> {
    let g = |n: &str| case[n].as_u64().unwrap_or(0);
    let reverse = case["reverse"].as_bool().unwrap_or(false);
    let dup = case["dup"].as_bool().unwrap_or(false);
    let u = make_obj_universe(g("F"), g("T") as u16, g("Z") as u8, g("N") as u16, g("Al") as u8, reverse)?;
    let path: Vec<usize> = case["path"].as_array().unwrap().iter().map(|x| x.as_u64().unwrap() as usize).collect();
    let mut dec = Decoder::new(u.oti);
    let mut have = vec![0u32; u.ks.len()];
    for (step, &i) in path.iter().enumerate() {
        let mut r = guarded(|| dec.decode(u.packets[i].clone())).map_err(|e| format!("step {}: decode panicked: {}", step, e))?;
        if dup {
            let r2 = guarded(|| dec.decode(u.packets[i].clone())).map_err(|e| format!("step {}: second delivery panicked: {}", step, e))?;
            if let Some(a) = &r {
                if a != &u.data { return Err(format!("step {}: wrong object on first delivery", step)); }
                if r2.as_ref() != Some(a) { return Err(format!("step {}: second delivery of the same packet changed the answer", step)); }
            }
            r = r2;
        }
        if let Some((b, _)) = u.src[i] {
            have[b] += 1;
        }
        let all_src = have.iter().zip(u.ks.iter()).all(|(h, k)| h == k);
        match r {
            None if all_src => return Err(format!("step {}: all source delivered but None", step)),
            Some(d) if d != u.data => return Err(format!("step {}: wrong object ({} bytes, F = {})", step, d.len(), u.cfg.0)),
            _ => {}
        }
    }
    Ok(())
}

// ---------------------------------------------------------------- (B) every block size
/// histories for one block size through the object-level API (Z = 1, F = K*T - 1 so that truncation matters)
fn check_size(k: u32, heavy: bool) -> Result<(u64, u64), String> {
    let t = 2u16;
    let f = k as u64 * t as u64 - 1;
    let data = data_pos(f as usize);
    let oti = Oti::new(f, t, 1, 1, 1);
    let enc = guarded(|| Encoder::new(&data, oti)).map_err(|e| format!("K={}: Encoder::new panicked: {}", k, e))?;
    let be = &enc.get_block_encoders()[0];
    let src = be.source_packets();
    let check = |label: &str, step: usize, r: Option<Vec<u8>>, must: bool| -> Result<bool, String> {
        match r {
            None if must => Err(format!("K={} history '{}' step {}: all source packets delivered but no answer", k, label, step)),
            None => Ok(false),
            Some(d) => {
                if d != data {
                    Err(format!("K={} history '{}' step {}: wrong object returned ({} bytes, F={})", k, label, step, d.len(), f))
                } else {
                    Ok(true)
                }
            }
        }
    };
    let mut histories = 0u64;
    let mut solver_decodes = 0u64;
    // 1. all source in order
    {
        let mut dec = Decoder::new(oti);
        for (i, p) in src.iter().enumerate() {
            let r = guarded(|| dec.decode(p.clone())).map_err(|e| format!("K={} in-order step {}: panic {}", k, i, e))?;
            let done = check("all source in order", i, r, i + 1 == k as usize)?;
            if done && i + 1 < k as usize {
                return Err(format!("K={}: answered after only {} of {} source packets and no repair", k, i + 1, k));
            }
        }
        histories += 1;
    }
    // 2. erasures + repair from ESI K upward, then the erased symbols
    let mut pats: Vec<Vec<u32>> = vec![vec![0], vec![k / 2], vec![k - 1]];
    if k >= 3 && heavy {
        pats.push(vec![0, k - 1]);
        pats.push(vec![0, k / 2]);
    }
    for p in pats.iter_mut() {
        p.sort_unstable();
        p.dedup();
    }
    pats.sort();
    pats.dedup();
    for pat in &pats {
        let mut dec = Decoder::new(oti);
        let label = format!("erase {:?}, repair from ESI K", pat);
        let mut step = 0;
        let mut answered = false;
        for (i, p) in src.iter().enumerate() {
            if pat.contains(&(i as u32)) {
                continue;
            }
            let r = guarded(|| dec.decode(p.clone())).map_err(|e| format!("K={} '{}' step {}: panic {}", k, label, step, e))?;
            if check(&label, step, r, false)? {
                return Err(format!("K={} '{}': answered with only {} distinct packets", k, label, step + 1));
            }
            step += 1;
        }
        let reps = guarded(|| be.repair_packets(0, pat.len() as u32 + 3)).map_err(|e| format!("K={}: repair_packets panicked: {}", k, e))?;
        for p in reps {
            let r = guarded(|| dec.decode(p.clone())).map_err(|e| format!("K={} '{}' step {}: panic {}", k, label, step, e))?;
            step += 1;
            if (step as u32) < k && r.is_some() {
                return Err(format!("K={} '{}': answered with only {} distinct packets", k, label, step));
            }
            if check(&label, step, r, false)? {
                answered = true;
                solver_decodes += 1;
                break;
            }
        }
        // finally the erased source symbols: now every source packet has been delivered
        for (j, &e) in pat.iter().enumerate() {
            let r = guarded(|| dec.decode(src[e as usize].clone())).map_err(|x| format!("K={} '{}' late source {}: panic {}", k, label, e, x))?;
            check(&label, step + j, r, answered || j + 1 == pat.len())?;
        }
        histories += 1;
    }
    // 3. repair only (near), 4. far only
    for (label, start) in [("repair only from ESI K", 0u32), ("far repair only", (1u32 << 24) - k - (k + 4))] {
        if !heavy && k > 3000 && start != 0 {
            continue;
        }
        let mut dec = Decoder::new(oti);
        let reps = guarded(|| be.repair_packets(start, k + 4)).map_err(|e| format!("K={}: repair_packets({}, {}) panicked: {}", k, start, k + 4, e))?;
        let mut answered = false;
        for (i, p) in reps.into_iter().enumerate() {
            let r = guarded(|| dec.decode(p)).map_err(|e| format!("K={} '{}' step {}: panic {}", k, label, i, e))?;
            if (i as u32) + 1 < k && r.is_some() {
                return Err(format!("K={} '{}': answered with only {} packets", k, label, i + 1));
            }
            if check(label, i, r, false)? {
                answered = true;
                solver_decodes += 1;
                break;
            }
        }
        let _ = answered;
        histories += 1;
    }
    Ok((histories, solver_decodes))
}

// ---------------------------------------------------------------- (C) wide shapes, deviation-bounded histories
/// For one configuration: per block b and erased source symbol e in {0, K_b/2, K_b-1}: deliver every other source
/// packet of every block (blocks interleaved round-robin, reverse ESI order) plus repair ESIs K_b..K_b+2 of block
/// b, then the erased packet; a repair-only history for all blocks; each answer None or the object.
fn check_shape(cfg: (u64, u16, u8, u16, u8)) -> Result<(u64, u64, u64), String> {
    let (f, t, z, n, al) = cfg;
    let data = data_pos(f as usize);
    let oti = Oti::new(f, t, z, n, al);
    let enc = guarded(|| Encoder::new(&data, oti)).map_err(|e| format!("{:?}: Encoder::new panicked: {}", cfg, e))?;
    let bes = enc.get_block_encoders();
    let src: Vec<Vec<EncodingPacket>> = bes.iter().map(|b| b.source_packets()).collect();
    let rep: Vec<Vec<EncodingPacket>> = bes.iter().map(|b| b.repair_packets(0, b.source_packets().len() as u32 + 3)).collect();
    let total_src: usize = src.iter().map(|s| s.len()).sum();
    let verdict = |label: &str, step: usize, r: Option<Vec<u8>>, must: bool| -> Result<bool, String> {
        match r {
            None if must => Err(format!("{:?} history '{}' step {}: all source packets delivered but no answer", cfg, label, step)),
            None => Ok(false),
            Some(d) => {
                if d.len() as u64 != f {
                    Err(format!("{:?} history '{}' step {}: returned {} bytes, transfer length is {}", cfg, label, step, d.len(), f))
                } else if d != data {
                    Err(format!("{:?} history '{}' step {}: wrong bytes (first difference at offset {:?})", cfg, label, step, d.iter().zip(data.iter()).position(|(a, b)| a != b)))
                } else {
                    Ok(true)
                }
            }
        }
    };
    let (mut histories, mut via_repair, mut none_with_overhead) = (0u64, 0u64, 0u64);
    for b in 0..src.len() {
        let kb = src[b].len();
        let mut es = vec![0usize, kb / 2, kb - 1];
        es.dedup();
        for &e in &es {
            let label = format!("block {} source ESI {} erased", b, e);
            let mut dec = Decoder::new(oti);
            let mut step = 0usize;
            let mut delivered_src = 0usize;
            // round-robin over the blocks, descending ESI
            let maxk = src.iter().map(|s| s.len()).max().unwrap_or(0);
            for i in (0..maxk).rev() {
                for bb in 0..src.len() {
                    if i >= src[bb].len() || (bb == b && i == e) {
                        continue;
                    }
                    let r = guarded(|| dec.decode(src[bb][i].clone())).map_err(|x| format!("{:?} '{}' step {}: panic {}", cfg, label, step, x))?;
                    delivered_src += 1;
                    if verdict(&label, step, r, false)? {
                        return Err(format!("{:?} '{}': answered after {} source packets although one is missing and no repair packet was delivered", cfg, label, delivered_src));
                    }
                    step += 1;
                }
            }
            // one source packet of the damaged block a second time (a multiset, not a set)
            if kb > 1 {
                let d = if e == 0 { kb - 1 } else { 0 };
                let r = guarded(|| dec.decode(src[b][d].clone())).map_err(|x| format!("{:?} '{}' duplicate source ESI {}: panic {}", cfg, label, d, x))?;
                if verdict(&label, step, r, false)? {
                    return Err(format!("{:?} '{}': answered after a duplicate source packet although one source packet is missing and no repair packet was delivered", cfg, label));
                }
            }
            let mut answered = false;
            for p in rep[b].iter().take(3) {
                let r = guarded(|| dec.decode(p.clone())).map_err(|x| format!("{:?} '{}' step {} (repair): panic {}", cfg, label, step, x))?;
                step += 1;
                if verdict(&label, step, r, false)? {
                    answered = true;
                    via_repair += 1;
                    break;
                }
            }
            if !answered {
                none_with_overhead += 1;
            }
            let r = guarded(|| dec.decode(src[b][e].clone())).map_err(|x| format!("{:?} '{}' late source: panic {}", cfg, label, x))?;
            verdict(&label, step, r, true)?;
            debug_assert_eq!(delivered_src + 1, total_src);
            histories += 1;
        }
    }
    // repair only, blocks in reverse order
    {
        let label = "repair only";
        let mut dec = Decoder::new(oti);
        let mut step = 0;
        let mut answered = false;
        for b in (0..rep.len()).rev() {
            for p in rep[b].iter() {
                let r = guarded(|| dec.decode(p.clone())).map_err(|x| format!("{:?} '{}' step {}: panic {}", cfg, label, step, x))?;
                step += 1;
                if verdict(label, step, r, false)? {
                    answered = true;
                }
            }
        }
        if answered {
            via_repair += 1;
        } else {
            none_with_overhead += 1;
        }
        histories += 1;
    }
    Ok((histories, via_repair, none_with_overhead))
}

pub fn replay(case: &Value) -> Result<(), String> {
    match case["kind"].as_str().unwrap_or("") {
        "object" => replay_object(case),
        "shape" => check_shape((case["F"].as_u64().unwrap(), case["T"].as_u64().unwrap() as u16, case["Z"].as_u64().unwrap() as u8, case["N"].as_u64().unwrap() as u16, case["Al"].as_u64().unwrap() as u8)).map(|_| ()),
        "size" => check_size(case["K"].as_u64().unwrap() as u32, true).map(|_| ()),
        k => Err(format!("unknown kind {}", k)),
    }
}

fn box_a(ts: &[u16]) -> Vec<(u64, u16, u8, u16, u8)> {
    crate::c05::box_configs(ts, 4, 3, 12)
}

pub fn run(ctx: &Ctx) -> i32 {
    let st = Stats::new();
    // (A)
    let ts: Vec<u16> = if ctx.quick() { vec![1, 2, 4, 8] } else { vec![1, 2, 3, 4, 6, 8, 12] };
    let mut cfgs = box_a(&ts);
    // heaviest (largest universe) first
    cfgs.sort_by_key(|c| std::cmp::Reverse(((c.0 + c.1 as u64 - 1) / c.1 as u64) + 3 * c.2 as u64));
    let work: Vec<((u64, u16, u8, u16, u8), bool, bool)> = cfgs.iter().flat_map(|&c| [(c, false, false), (c, true, false), (c, true, true)]).collect();
    par_for(work.len(), |i| {
        run_config(work[i].0, work[i].1, work[i].2, &st);
    });
    st.set_counter("A_configurations", cfgs.len() as u64);
    // (B)
    let sizes: Vec<u32> = if ctx.quick() { all_sizes_with_minpad().into_iter().filter(|&k| k <= 2100 || k == 10899 || k == 56403).collect() } else { all_sizes_with_minpad() };
    let mut order = sizes.clone();
    order.sort_by_key(|&k| std::cmp::Reverse(k));
    par_for(order.len(), |i| {
        let k = order[i];
        match check_size(k, ctx.thorough() || k <= 2100) {
            Ok((h, d)) => {
                st.eval(h);
                st.nontriv(d);
                st.count("B_block_sizes", 1);
                st.count("B_histories", h);
                st.count("B_solver_decodes", d);
            }
            Err(m) => st.violation(format!("size:{}", k), m, json!({"kind":"size","K":k})),
        }
    });
    // (C)
    let wide_ts: Vec<u16> = if ctx.quick() { vec![3, 5, 6, 12, 16, 24] } else { vec![3, 5, 6, 7, 9, 10, 12, 15, 16, 20, 24, 30, 32, 48, 64] };
    let (ckt, cz) = if ctx.quick() { (10, 6) } else { (14, 8) };
    let mut shapes = crate::c05::wide_configs(&wide_ts, ckt, cz);
    // tall objects (T=1 and T=2/N=2): block sizes KL = KS+1 on both sides of the table sizes K' = 10, 12, 18, 20, 26, ...
    for kt in 11..=(if ctx.quick() { 130u64 } else { 330 }) {
        for z in 2..=(if ctx.quick() { 4u64 } else { 6 }) {
            shapes.push((kt, 1, z as u8, 1, 1));
            if kt % 4 == 1 { shapes.push((2 * kt - 1, 2, z as u8, 2, 1)); }
        }
    }
    par_for_chunk(shapes.len(), 16, |i| {
        let c = shapes[i];
        match check_shape(c) {
            Ok((h, d, nn)) => {
                st.eval(h);
                st.nontriv(d);
                st.count("C_shapes", 1);
                st.count("C_histories", h);
                st.count("C_decoded_using_repair", d);
                st.count("C_none_despite_overhead", nn);
                if c.2 > 1 && c.3 > 1 { st.count("C_shapes_Z>1_N>1", 1); }
            }
            Err(m) => st.violation(format!("shape:{:?}", c), m, json!({"kind":"shape","F":c.0,"T":c.1,"Z":c.2,"N":c.3,"Al":c.4})),
        }
    });
    st.sample(json!({"part":"C","config":{"F":95,"T":12,"Z":3,"N":4,"Al":1},"histories":"per block, erase source ESI 0 / K/2 / K-1: all other source packets of all blocks (round-robin, descending ESI), repair ESIs K..K+2 of that block, then the erased packet; repair-only in reverse block order"}));
    st.sample(json!({"part":"A","config":{"F":7,"T":2,"Z":3,"N":2,"Al":1},"universe":"per block: all source + repair ESI K, K+1 + ESI 2^24-1","explored":"every subset in canonical order and every subset in reverse order, Decoder cloned per branch"}));
    st.sample(json!({"part":"B","K":56403,"histories":["all source in order","erase [0] + repair","erase [K/2] + repair","erase [K-1] + repair","erase pairs","repair only","far repair only"]}));
    let _ = rfcref::params_for_k(10);
    finish(ctx, &st, Finish {
        level: "exploration",
        rule: format!("(A) every valid (F,T,Z,N,Al) with T in {:?}, Al|T, N<=T/Al, ceil(F/T)<=4, Z<=min(ceil(F/T),3): packet universe = per block all source packets + repair ESIs K, K+1, 2^24-1; EVERY subset delivered in canonical order, again in reverse order, and again in reverse order with every packet delivered twice (multisets) through a real Decoder (clone per branch): each answer is None or exactly the object with length F, Some is mandatory once all source packets are in, no panic. (B) {} block sizes (every K' and its smallest K{}), T=2, F=K*T-1, object-level Decoder: all source in order (None before, object at the K-th), erasure patterns {{0,K/2,K-1 and pairs}} + repair from ESI K until answered + late source symbols, repair-only, far-repair-only. (C) {} wide shapes: T in {:?}, every Al|T, every N<=T/Al, ceil(F/T)<={}, Z<={}, F=ceil(F/T)*T-{{0,1,2,T/2,T-1}}: per block and erased source symbol in {{0,K/2,K-1}} all other source packets of all blocks interleaved + 3 repair packets of that block + the erased packet (must answer then), and a repair-only history. distinct_nontrivial = nodes/histories answered with the help of repair symbols (solver ran).", ts, sizes.len(), if ctx.quick() { "; quick tier: K<=2100, 10899, 56403" } else { "" }, shapes.len(), wide_ts, ckt, cz),
        exhaustive: false,
        assumptions: vec!["one data pattern (pos) per configuration; other contents follow by linearity (C09)".into(), "Kt > 4 is not combined with full subset enumeration".into()],
        extra: Map::new(),
        must_be_nonzero: vec!["A_nodes", "A_answers_some", "A_answers_none", "A_decoded_using_repair", "B_block_sizes", "B_solver_decodes", "C_shapes", "C_decoded_using_repair", "C_shapes_Z>1_N>1"],
    }, replay)
}
