//! C04 — encoding symbols are byte-exact RFC 6330 symbols. Five layers, all against rfcref.
use crate::codec::*;
use crate::common::*;
use crate::rfcref::{self, Params};
use crate::tables::TABLE2;
use raptorq::verif as rq;
use raptorq::verif::BinaryMatrix;
use raptorq::{SourceBlockEncoder, SourceBlockEncodingPlan};
use serde_json::{json, Map, Value};

// ---- layer 1: tuples around the ISIs that encoders and decoders actually use first
fn layer1(idx: usize) -> Result<u64, String> {
    let p = rfcref::params_by_index(idx);
    let mut n = 0;
    let far = [(1u32 << 24) - 1 + p.Kp - 1, 1 << 23, (1 << 16) + p.Kp];
    for x in (0..p.Kp + 4096).chain(far.iter().copied()) {
        let got = guarded(|| rq::intermediate_tuple(x, p.W, p.J, p.P1)).map_err(|e| format!("K'={} X={}: panic {}", p.Kp, x, e))?;
        if got != rfcref::tuple(&p, x) {
            return Err(format!("K'={} X={}: tuple {:?}, reference {:?}", p.Kp, x, got, rfcref::tuple(&p, x)));
        }
        n += 1;
    }
    Ok(n)
}

fn layer2_isis(p: &Params) -> Vec<u32> {
    let mut isis: Vec<u32> = (0..p.Kp).collect();
    isis.extend(p.Kp..p.Kp + 56);
    isis.extend_from_slice(&[(1 << 16) + p.Kp, 1 << 23, (1 << 24) - 2, (1 << 24) - 1, (1 << 24) + p.Kp - 2, (1 << 24) + p.Kp - 1, 3158229, 8192877]);
    isis
}

// ---- layer 2: constraint matrix entry by entry
fn layer2(idx: usize, dense: bool) -> Result<u64, String> {
    let p = rfcref::params_by_index(idx);
    let l = p.L as usize;
    let s = p.S as usize;
    let h = p.H as usize;
    let isis = layer2_isis(&p);
    let mut ref_rows: Vec<Vec<usize>> = rfcref::ldpc_rows(&p);
    for _ in 0..h {
        ref_rows.push(vec![]); // HDPC rows are returned separately; the binary matrix leaves them empty
    }
    for &x in &isis {
        let mut r = rfcref::enc_indices(&p, rfcref::tuple(&p, x));
        r.sort_unstable();
        r.dedup();
        ref_rows.push(r);
    }
    let nrows = s + h + isis.len();
    let mut cells = 0u64;
    let kind = if dense { "dense" } else { "sparse" };
    let hd;
    if dense {
        let (m, hdpc) = guarded(|| rq::generate_constraint_matrix::<rq::DenseBinaryMatrix>(p.Kp, &isis)).map_err(|e| format!("K'={} dense: panic {}", p.Kp, e))?;
        if m.height() != nrows || m.width() != l {
            return Err(format!("K'={} dense: shape {}x{}, want {}x{}", p.Kp, m.height(), m.width(), nrows, l));
        }
        for (i, want) in ref_rows.iter().enumerate() {
            let mut got: Vec<usize> = vec![];
            for (c, v) in m.get_row_iter(i, 0, l - 1) {
                if v != rq::Octet::zero() {
                    got.push(c);
                }
            }
            if m.get(i, l - 1) != rq::Octet::zero() {
                got.push(l - 1);
            }
            cells += l as u64;
            if &got != want {
                return Err(format!("K'={} {} row {} ({}): ones at {:?}, reference {:?}", p.Kp, kind, i, row_name(&p, i, &isis), trunc(&got), trunc(want)));
            }
        }
        hd = hdpc;
    } else {
        let (mut m, hdpc) = guarded(|| rq::generate_constraint_matrix::<rq::SparseBinaryMatrix>(p.Kp, &isis)).map_err(|e| format!("K'={} sparse: panic {}", p.Kp, e))?;
        if m.height() != nrows || m.width() != l {
            return Err(format!("K'={} sparse: shape {}x{}, want {}x{}", p.Kp, m.height(), m.width(), nrows, l));
        }
        // sparse part column by column through the column index, dense tail (P columns) row by row
        let first_dense = l - p.P as usize;
        let mut ref_cols: Vec<Vec<u32>> = vec![vec![]; first_dense];
        for (i, r) in ref_rows.iter().enumerate() {
            for &c in r {
                if c < first_dense {
                    ref_cols[c].push(i as u32);
                }
            }
        }
        m.enable_column_access_acceleration();
        for c in 0..first_dense {
            let mut got = m.get_ones_in_column(c, 0, nrows);
            got.sort_unstable();
            cells += nrows as u64;
            if got != ref_cols[c] {
                return Err(format!("K'={} sparse column {}: ones in rows {:?}, reference {:?}", p.Kp, c, got.iter().take(12).collect::<Vec<_>>(), ref_cols[c].iter().take(12).collect::<Vec<_>>()));
            }
        }
        for (i, want) in ref_rows.iter().enumerate() {
            let got = m.query_non_zero_columns(i, first_dense);
            let w: Vec<usize> = want.iter().copied().filter(|&c| c >= first_dense).collect();
            cells += p.P as u64;
            if got != w {
                return Err(format!("K'={} sparse row {} ({}) dense tail: ones at {:?}, reference {:?}", p.Kp, i, row_name(&p, i, &isis), trunc(&got), trunc(&w)));
            }
        }
        // spot check get() on the reference ones of every row
        for (i, want) in ref_rows.iter().enumerate() {
            for &c in want {
                if m.get(i, c) != rq::Octet::one() {
                    return Err(format!("K'={} sparse get({}, {}) != 1", p.Kp, i, c));
                }
            }
        }
        hd = hdpc;
    }
    // HDPC rows
    if hd.height() != h {
        return Err(format!("K'={}: {} HDPC rows, want {}", p.Kp, hd.height(), h));
    }
    for i in 0..h {
        let want = rfcref::hdpc_full_row(&p, i);
        for j in 0..l {
            cells += 1;
            let g = hd.get(i, j).byte();
            if g != want[j] {
                return Err(format!("K'={} HDPC[{}][{}] = {}, reference (MT*GAMMA | I_H) = {}", p.Kp, i, j, g, want[j]));
            }
        }
    }
    Ok(cells)
}

fn row_name(p: &Params, i: usize, isis: &[u32]) -> String {
    let s = p.S as usize;
    let h = p.H as usize;
    if i < s {
        format!("LDPC {}", i)
    } else if i < s + h {
        format!("HDPC placeholder {}", i - s)
    } else {
        format!("LT row of ISI {}", isis[i - s - h])
    }
}

fn trunc(v: &[usize]) -> Vec<usize> {
    v.iter().copied().take(40).collect()
}

// ---- layer 3 + 4: intermediate symbols certificate, then packets against Enc[C, Tuple]
/// mode: "cache" (SourceBlockEncoder::new), "plan" (with_encoding_plan)
fn build(k: u32, t: u16, data: &[u8], mode: &str) -> Result<SourceBlockEncoder, String> {
    let cfg = block_cfg(k, t);
    guarded(|| match mode {
        "plan" => {
            let plan = SourceBlockEncodingPlan::generate(k as u16);
            SourceBlockEncoder::with_encoding_plan(0, &cfg, data, &plan)
        }
        _ => SourceBlockEncoder::new(0, &cfg, data),
    })
    .map_err(|e| format!("K={} T={}: building the encoder ({}) panicked: {}", k, t, mode, e))
}

fn layer34(k: u32, t: u16, pattern: &str, mode: &str, extra_esis: usize, unit: Option<u32>) -> Result<u64, String> {
    let p = rfcref::params_for_k(k);
    let len = k as usize * t as usize;
    let data = match unit {
        Some(u) => {
            let mut d = vec![0u8; len];
            d[u as usize * t as usize] = 1;
            d
        }
        None => data_named(pattern, len, 4),
    };
    let src = split_symbols(&data, t as usize);
    let enc = build(k, t, &data, mode)?;
    let c = enc.verif_intermediate_symbols();
    rfcref::check_intermediate(k, &src, &c).map_err(|e| format!("K={} T={} data={} mode={}: intermediate symbols: {}", k, t, pattern, mode, e))?;
    let mut n = 1u64;
    // source packets
    let sp = guarded(|| enc.source_packets()).map_err(|e| format!("K={}: source_packets panicked: {}", k, e))?;
    if sp.len() != k as usize {
        return Err(format!("K={}: {} source packets", k, sp.len()));
    }
    for (i, pk) in sp.iter().enumerate() {
        n += 1;
        if pk.payload_id().source_block_number() != 0 || pk.payload_id().encoding_symbol_id() != i as u32 || pk.data() != &src[i][..] {
            return Err(format!("K={} T={} data={}: source packet {} is not source symbol {}", k, t, pattern, i, i));
        }
    }
    // repair packets: near window and far singles
    let near = guarded(|| enc.repair_packets(0, extra_esis as u32)).map_err(|e| format!("K={}: repair_packets panicked: {}", k, e))?;
    let mut all: Vec<raptorq::EncodingPacket> = near;
    for e in far_esis(k) {
        all.push(guarded(|| repair_packet(&enc, k, e)).map_err(|x| format!("K={} ESI={}: repair_packets panicked: {}", k, e, x))?);
    }
    let mut want_esi: Vec<u32> = (k..k + extra_esis as u32).collect();
    want_esi.extend(far_esis(k));
    for (pk, &esi) in all.iter().zip(want_esi.iter()) {
        n += 1;
        if pk.payload_id().encoding_symbol_id() != esi || pk.payload_id().source_block_number() != 0 {
            return Err(format!("K={}: repair packet has id {:?}, want ESI {}", k, pk.payload_id(), esi));
        }
        let want = ref_symbol(&p, k, &c, esi);
        if pk.data() != &want[..] {
            return Err(format!("K={} T={} data={} mode={}: repair ESI {} (ISI {}) = {}, RFC Enc[K',C,Tuple] = {}", k, t, pattern, mode, esi, isi_of(&p, k, esi), hex(&pk.data()[..pk.data().len().min(8)]), hex(&want[..want.len().min(8)])));
        }
    }
    Ok(n)
}

// ---- layer 4b: the whole repair stream of one block
fn layer4_stream(k: u32, chunk: u32, chunks: &std::ops::Range<u32>, st: &Stats) -> Result<u64, String> {
    let p = rfcref::params_for_k(k);
    let data = data_pos(k as usize);
    let src = split_symbols(&data, 1);
    let enc = build(k, 1, &data, "cache")?;
    let c = enc.verif_intermediate_symbols();
    rfcref::check_intermediate(k, &src, &c)?;
    let total = (1u32 << 24) - k;
    let err: std::sync::Mutex<Option<(u32, String)>> = std::sync::Mutex::new(None);
    let set_err = |pos: u32, m: String| {
        let mut e = err.lock().unwrap();
        if e.as_ref().map(|x| pos < x.0).unwrap_or(true) {
            *e = Some((pos, m));
        }
    };
    let n = std::sync::atomic::AtomicU64::new(0);
    let work: Vec<u32> = chunks.clone().collect();
    par_for(work.len(), |w| {
        let s = work[w] * chunk;
        if s >= total || err.lock().unwrap().as_ref().map(|x| x.0 < s).unwrap_or(false) {
            return;
        }
        let cnt = chunk.min(total - s);
        match guarded(|| enc.repair_packets(s, cnt)) {
            Err(e) => set_err(s, format!("K={}: repair_packets({}, {}) panicked: {}", k, s, cnt, e)),
            Ok(pk) => {
                for (i, x) in pk.iter().enumerate() {
                    let esi = k + s + i as u32;
                    let want = ref_symbol(&p, k, &c, esi);
                    if x.payload_id().encoding_symbol_id() != esi || x.data() != &want[..] {
                        set_err(s + i as u32, format!("K={}: repair ESI {} = {:?} (id {}), reference {:?}", k, esi, x.data(), x.payload_id().encoding_symbol_id(), want));
                        return;
                    }
                }
                n.fetch_add(pk.len() as u64, std::sync::atomic::Ordering::Relaxed);
            }
        }
    });
    let _ = st;
    if let Some(e) = err.into_inner().unwrap() {
        return Err(e.1);
    }
    Ok(n.load(std::sync::atomic::Ordering::Relaxed))
}

// ---- layer 5: independent solve
fn layer5(k: u32, t: u16) -> Result<u64, String> {
    let p = rfcref::params_for_k(k);
    let data = data_lcg(k as u64, k as usize * t as usize);
    let src = split_symbols(&data, t as usize);
    let c_ref = rfcref::intermediate_symbols(k, &src);
    let enc = build(k, t, &data, "cache")?;
    let c = enc.verif_intermediate_symbols();
    if c != c_ref {
        let i = (0..c.len().min(c_ref.len())).find(|&i| c[i] != c_ref[i]);
        return Err(format!("K={} T={}: intermediate symbol {:?} differs from the reference solution of A*C=D (lengths {} / {})", k, t, i, c.len(), c_ref.len()));
    }
    let near = guarded(|| enc.repair_packets(0, 40)).map_err(|e| format!("K={}: repair_packets panicked: {}", k, e))?;
    for (i, pk) in near.iter().enumerate() {
        let esi = k + i as u32;
        if pk.data() != &ref_symbol(&p, k, &c_ref, esi)[..] {
            return Err(format!("K={} T={}: repair ESI {} differs from reference", k, t, esi));
        }
    }
    Ok(1)
}

pub fn replay(case: &Value) -> Result<(), String> {
    let g = |n: &str| case[n].as_u64().unwrap_or(0);
    match case["kind"].as_str().unwrap_or("") {
        "tuples" => layer1(g("idx") as usize).map(|_| ()),
        "matrix" => layer2(g("idx") as usize, case["dense"].as_bool().unwrap()).map(|_| ()),
        "packets" => layer34(g("K") as u32, g("T") as u16, case["data"].as_str().unwrap(), case["mode"].as_str().unwrap(), g("near") as usize, case["unit"].as_u64().map(|u| u as u32)).map(|_| ()),
        "stream" => {
            let st = Stats::new();
            let c = g("chunk") as u32;
            layer4_stream(g("K") as u32, 65536, &(c..c + 1), &st).map(|_| ())
        }
        "solve" => layer5(g("K") as u32, g("T") as u16).map(|_| ()),
        k => Err(format!("unknown kind {}", k)),
    }
}

pub fn run(ctx: &Ctx) -> i32 {
    let st = Stats::new();
    let q = ctx.quick();
    // layer 1
    par_for(TABLE2.len(), |idx| match layer1(idx) {
        Ok(n) => {
            st.eval(n);
            st.count("layer1_tuples", n);
        }
        Err(m) => st.violation(format!("tuples:{}", TABLE2[idx].0), m, json!({"kind":"tuples","idx":idx})),
    });
    // layer 2
    let mut work: Vec<(usize, bool)> = vec![];
    for idx in 0..TABLE2.len() {
        let kp = TABLE2[idx].0;
        let big = LARGE_EXTRA.contains(&kp);
        if !q || kp <= 2100 || kp == 10899 || kp == 56403 {
            work.push((idx, false));
        }
        let dense_ok = if q { kp <= 1100 } else { kp <= 12000 || big };
        if dense_ok {
            work.push((idx, true));
        }
    }
    work.sort_by_key(|w| std::cmp::Reverse(TABLE2[w.0].0 as u64 * if w.1 { 50 } else { 1 }));
    par_for(work.len(), |w| {
        let (idx, dense) = work[w];
        match layer2(idx, dense) {
            Ok(n) => {
                st.eval(n);
                st.nontriv(1);
                st.count(if dense { "layer2_dense_matrices" } else { "layer2_sparse_matrices" }, 1);
                st.count("layer2_cells", n);
            }
            Err(m) => st.violation(format!("matrix:{}:{}", TABLE2[idx].0, dense), m, json!({"kind":"matrix","idx":idx,"dense":dense,"Kp":TABLE2[idx].0})),
        }
    });
    // layer 3+4
    let mut cases: Vec<(u32, u16, &'static str, &'static str, usize, Option<u32>)> = vec![];
    let sizes: Vec<u32> = if q { all_sizes_with_minpad().into_iter().filter(|&k| k <= 2100 || k == 10899 || k == 56403).collect() } else { all_sizes_with_minpad() };
    for &k in &sizes {
        cases.push((k, 1, "pos", "cache", 64, None));
        if !q || k <= 300 {
            cases.push((k, 3, "ff", "plan", 64, None));
        }
    }
    for &k in &(if q { small_ladder() } else { mid_ladder() }) {
        for t in [1u16, 3] {
            for d in ["pos", "ff"] {
                for m in ["cache", "plan"] {
                    cases.push((k, t, d, m, 64, None));
                }
            }
        }
        if k <= 60 {
            for u in 0..k {
                cases.push((k, 1, "unit", "cache", 24, Some(u)));
            }
        }
    }
    cases.sort_by_key(|c| std::cmp::Reverse(c.0));
    cases.dedup();
    par_for(cases.len(), |i| {
        let (k, t, d, m, near, unit) = cases[i];
        match layer34(k, t, d, m, near, unit) {
            Ok(n) => {
                st.eval(n);
                st.nontriv(1);
                st.count("layer34_encoders", 1);
                st.count("layer34_packets", n - 1);
            }
            Err(msg) => st.violation(format!("packets:{}:{}:{}:{}:{:?}", k, t, d, m, unit), msg, json!({"kind":"packets","K":k,"T":t,"data":d,"mode":m,"near":near,"unit":unit})),
        }
    });
    // layer 4b whole streams
    let stream_ks: Vec<u32> = if q { vec![10] } else { vec![10, 989, 2195, 56403] };
    for &k in &stream_ks {
        let chunks = ((1u32 << 24) - k).div_ceil(65536);
        match layer4_stream(k, 65536, &(0..chunks), &st) {
            Ok(n) => {
                st.eval(n);
                st.count("layer4_stream_packets", n);
                st.nontriv(1);
            }
            Err(m) => {
                // locate the failing chunk for the replay
                let mut which = 0;
                for c in 0..chunks {
                    if layer4_stream(k, 65536, &(c..c + 1), &st).is_err() {
                        which = c;
                        break;
                    }
                }
                st.violation(format!("stream:{}:{}", k, which), m, json!({"kind":"stream","K":k,"chunk":which}));
            }
        }
    }
    // layer 5
    let solve_ks: Vec<u32> = if q { (1..=60).collect() } else { (1..=300).collect() };
    par_for(solve_ks.len(), |i| {
        let k = solve_ks[solve_ks.len() - 1 - i];
        for t in [1u16, 3] {
            match layer5(k, t) {
                Ok(n) => {
                    st.eval(n);
                    st.nontriv(1);
                    st.count("layer5_independent_solves", 1);
                }
                Err(m) => st.violation(format!("solve:{}:{}", k, t), m, json!({"kind":"solve","K":k,"T":t})),
            }
        }
    });
    let p = rfcref::params_for_k(10);
    st.sample(json!({"layer":1,"Kp":10,"X":10,"tuple":format!("{:?}", rfcref::tuple(&p, 10))}));
    st.sample(json!({"layer":2,"Kp":10,"LT row of ISI 10 (reference columns)":rfcref::enc_indices(&p, rfcref::tuple(&p, 10))}));
    st.sample(json!({"layer":"3+4","K":9,"T":3,"data":"ff","mode":"plan","checked":"LDPC/HDPC/LT certificate of C, 9 source packets, repair ESIs 9..72 and far ESIs vs Enc[10,C,Tuple[10,ESI+1]]"}));
    st.sample(json!({"layer":"4b","K":10,"stream":"all 2^24-10 repair ESIs"}));
    st.sample(json!({"layer":5,"K":60,"T":3,"independent Gaussian solve":"C and 40 repair packets identical"}));
    finish(ctx, &st, Finish {
        level: "exploration",
        rule: format!("L1 tuples X<K'+4096 and far for all 477 K'; L2 constraint matrix (LDPC, identity, LT rows of ISIs 0..K'+55 and 8 far ones, all H HDPC rows = MT*GAMMA|I) entry by entry: sparse for {} K', dense for {}; L3+L4 for {} block sizes (all 477 K' and their minimum-K partners{}) x data/T/mode variants and all unit vectors for K<=60: certificate check of the encoder's intermediate symbols against every reference relation, every source packet, 64 near + 4 far repair packets vs Enc[K',C,Tuple[K',ESI+K'-K]]; L4b complete repair streams (2^24-K packets) for K in {:?}; L5 independent Gaussian solve for K=1..{} x T in {{1,3}}. distinct_nontrivial = matrices + encoders + streams + solves compared.", if q { "K'<=2100,10899,56403" } else { "all 477" }, if q { "K'<=1100" } else { "K'<=12000 and the large ladder" }, sizes.len(), if q { ", K<=2100 and 10899, 56403 in the quick tier" } else { "" }, stream_ks, solve_ks.len()),
        exhaustive: false,
        assumptions: vec!["V0..V3, Table 2, degree table transcribed from the pinned commit (trusted base)".into(), "RFC 6330 guarantees A is invertible, so intermediate symbols satisfying every relation are THE RFC solution (layer 3 certificate); layer 5 re-derives them by an independent solve for K<=300".into(), "symbol sizes beyond {1,3} are lifted by C09 (column independence)".into()],
        extra: Map::new(),
        must_be_nonzero: vec!["layer1_tuples", "layer2_sparse_matrices", "layer2_dense_matrices", "layer34_encoders", "layer4_stream_packets", "layer5_independent_solves"],
    }, replay)
}
