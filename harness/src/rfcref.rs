//! Independent reference model of RFC 6330, written from the RFC text. Shares no code with /repo.
//! Deliberately boring and slow. Trusted base: the three constant tables in `tables.rs`.
#![allow(non_snake_case, clippy::many_single_char_names, clippy::needless_range_loop)]

use crate::tables::{DEG_F, TABLE2, V0, V1, V2, V3};
use std::sync::OnceLock;

// ---------------------------------------------------------------------------------------------
// GF(256), RFC 6330 5.7: polynomial x^8 + x^4 + x^3 + x^2 + 1, generator alpha = 2
// ---------------------------------------------------------------------------------------------
pub mod gf {
    use std::sync::OnceLock;

    /// Carry-less "Russian peasant" multiplication modulo 0x11D. No tables.
    pub fn mul_slow(a: u8, b: u8) -> u8 {
        let mut a = a as u16;
        let mut b = b;
        let mut r: u16 = 0;
        while b != 0 {
            if b & 1 != 0 {
                r ^= a;
            }
            a <<= 1;
            if a & 0x100 != 0 {
                a ^= 0x11D;
            }
            b >>= 1;
        }
        r as u8
    }

    static MUL: OnceLock<Vec<[u8; 256]>> = OnceLock::new();

    /// Table built from `mul_slow` at first use (only a speed-up of the definition above).
    pub fn table() -> &'static Vec<[u8; 256]> {
        MUL.get_or_init(|| {
            let mut t = vec![[0u8; 256]; 256];
            for a in 0..256usize {
                for b in 0..256usize {
                    t[a][b] = mul_slow(a as u8, b as u8);
                }
            }
            t
        })
    }

    #[inline]
    pub fn mul(a: u8, b: u8) -> u8 {
        table()[a as usize][b as usize]
    }

    /// Multiplicative inverse by search.
    pub fn inv(a: u8) -> u8 {
        assert!(a != 0);
        for x in 1..=255u8 {
            if mul_slow(a, x) == 1 {
                return x;
            }
        }
        unreachable!()
    }

    pub fn div(a: u8, b: u8) -> u8 {
        mul(a, inv(b))
    }

    /// alpha^e by repeated doubling (e reduced mod 255, alpha has order 255).
    pub fn alpha_pow(e: u64) -> u8 {
        let mut r = 1u8;
        for _ in 0..(e % 255) {
            r = mul_slow(r, 2);
        }
        r
    }
}

// ---------------------------------------------------------------------------------------------
// 5.3.5.1 Rand, 5.3.5.2 Deg, 5.3.5.4 Tuple, 5.3.5.3 Enc
// ---------------------------------------------------------------------------------------------

/// Rand[y, i, m]
pub fn rand(y: u32, i: u32, m: u32) -> u32 {
    assert!(m > 0);
    let y = y as u64;
    let i = i as u64;
    let x0 = ((y + i) % 256) as usize;
    let x1 = ((y / 256 + i) % 256) as usize;
    let x2 = ((y / 65536 + i) % 256) as usize;
    let x3 = ((y / 16777216 + i) % 256) as usize;
    (V0[x0] ^ V1[x1] ^ V2[x2] ^ V3[x3]) % m
}

/// Deg[v] for a code with W LT symbols
pub fn deg(v: u32, W: u32) -> u32 {
    assert!(v < (1 << 20));
    let mut d = 1usize;
    while !(DEG_F[d - 1] <= v && v < DEG_F[d]) {
        d += 1;
    }
    std::cmp::min(d as u32, W - 2)
}

#[derive(Clone, Copy, Debug, PartialEq, Eq)]
pub struct Params {
    pub Kp: u32,
    pub J: u32,
    pub S: u32,
    pub H: u32,
    pub W: u32,
    pub L: u32,
    pub P: u32,
    pub P1: u32,
    pub U: u32,
    pub B: u32,
}

pub fn is_prime(n: u32) -> bool {
    if n < 2 {
        return false;
    }
    let mut d = 2u32;
    while (d as u64) * (d as u64) <= n as u64 {
        if n % d == 0 {
            return false;
        }
        d += 1;
    }
    true
}

pub fn params_by_index(idx: usize) -> Params {
    let (Kp, J, S, H, W) = TABLE2[idx];
    let L = Kp + S + H;
    let P = L - W;
    let mut P1 = P;
    while !is_prime(P1) {
        P1 += 1;
    }
    Params {
        Kp,
        J,
        S,
        H,
        W,
        L,
        P,
        P1,
        U: P - H,
        B: W - S,
    }
}

/// index of the smallest K' >= K
pub fn kprime_index(K: u32) -> Option<usize> {
    (0..TABLE2.len()).find(|&i| TABLE2[i].0 >= K)
}

pub fn params_for_k(K: u32) -> Params {
    params_by_index(kprime_index(K).expect("K <= 56403"))
}

pub fn all_kprime() -> Vec<u32> {
    TABLE2.iter().map(|r| r.0).collect()
}

/// smallest K that maps to TABLE2[idx] (maximum number of padding symbols)
pub fn min_k_for_index(idx: usize) -> u32 {
    if idx == 0 {
        1
    } else {
        TABLE2[idx - 1].0 + 1
    }
}

pub type Tuple = (u32, u32, u32, u32, u32, u32);

/// Tuple[K', X]
pub fn tuple(p: &Params, X: u32) -> Tuple {
    let mut A: u64 = 53591 + p.J as u64 * 997;
    if A % 2 == 0 {
        A += 1;
    }
    let Bv: u64 = 10267 * (p.J as u64 + 1);
    let y = ((Bv + X as u64 * A) % (1u64 << 32)) as u32;
    let v = rand(y, 0, 1 << 20);
    let d = deg(v, p.W);
    let a = 1 + rand(y, 1, p.W - 1);
    let b = rand(y, 2, p.W);
    let d1 = if d < 4 { 2 + rand(X, 3, 2) } else { 2 };
    let a1 = 1 + rand(X, 4, p.P1 - 1);
    let b1 = rand(X, 5, p.P1);
    (d, a, b, d1, a1, b1)
}

/// The `y` of Tuple[K', X] (to find the inputs where y + i wraps around 2^32)
pub fn tuple_y(p: &Params, X: u32) -> u32 {
    let mut A: u64 = 53591 + p.J as u64 * 997;
    if A % 2 == 0 {
        A += 1;
    }
    let Bv: u64 = 10267 * (p.J as u64 + 1);
    ((Bv + X as u64 * A) % (1u64 << 32)) as u32
}

/// Indices of the intermediate symbols summed by Enc[K', C, (d,a,b,d1,a1,b1)]
pub fn enc_indices(p: &Params, t: Tuple) -> Vec<usize> {
    let (d, a, mut b, d1, a1, mut b1) = t;
    let mut r = Vec::with_capacity(33);
    r.push(b as usize);
    for _ in 1..d {
        b = (b + a) % p.W;
        r.push(b as usize);
    }
    while b1 >= p.P {
        b1 = (b1 + a1) % p.P1;
    }
    r.push((p.W + b1) as usize);
    for _ in 1..d1 {
        b1 = (b1 + a1) % p.P1;
        while b1 >= p.P {
            b1 = (b1 + a1) % p.P1;
        }
        r.push((p.W + b1) as usize);
    }
    r
}

pub fn tuple_in_range(p: &Params, t: Tuple) -> bool {
    let (d, a, b, d1, a1, b1) = t;
    1 <= d
        && d <= std::cmp::min(30, p.W - 2)
        && 1 <= a
        && a < p.W
        && b < p.W
        && (d1 == 2 || d1 == 3)
        && 1 <= a1
        && a1 < p.P1
        && b1 < p.P1
}

/// Enc[K', C, Tuple[K', X]] for intermediate symbols C (L symbols of equal size)
pub fn enc_symbol(p: &Params, C: &[Vec<u8>], X: u32) -> Vec<u8> {
    let idx = enc_indices(p, tuple(p, X));
    let mut out = vec![0u8; C[0].len()];
    for i in idx {
        for (o, c) in out.iter_mut().zip(C[i].iter()) {
            *o ^= *c;
        }
    }
    out
}

// ---------------------------------------------------------------------------------------------
// 5.3.3.3 pre-coding relationships / 5.3.3.4 constraint matrix
// ---------------------------------------------------------------------------------------------

/// LDPC rows as column lists (row i, i in 0..S), entries are toggled (GF(2))
pub fn ldpc_rows(p: &Params) -> Vec<Vec<usize>> {
    let S = p.S as usize;
    let B = p.B as usize;
    let W = p.W as usize;
    let P = p.P as usize;
    let mut rows: Vec<Vec<usize>> = vec![Vec::new(); S];
    let toggle = |row: &mut Vec<usize>, c: usize| {
        if let Some(pos) = row.iter().position(|&x| x == c) {
            row.swap_remove(pos);
        } else {
            row.push(c);
        }
    };
    for i in 0..B {
        let a = 1 + i / S;
        let mut b = i % S;
        toggle(&mut rows[b], i);
        b = (b + a) % S;
        toggle(&mut rows[b], i);
        b = (b + a) % S;
        toggle(&mut rows[b], i);
    }
    for i in 0..S {
        let a = i % P;
        let b = (i + 1) % P;
        toggle(&mut rows[i], W + a);
        toggle(&mut rows[i], W + b);
        // D[i] = C[B+i]
        toggle(&mut rows[i], B + i);
    }
    for r in rows.iter_mut() {
        r.sort_unstable();
    }
    rows
}

/// MT matrix column j (j in 0..K'+S-1): the two rows holding a one
fn mt_ones(p: &Params, j: usize) -> (usize, usize) {
    let H = p.H;
    let r6 = rand(j as u32 + 1, 6, H);
    let r7 = rand(j as u32 + 1, 7, H - 1);
    (r6 as usize, ((r6 + r7 + 1) % H) as usize)
}

/// G_HDPC = MT * GAMMA, naive double sum (reference definition). H x (K'+S)
pub fn hdpc_naive(p: &Params) -> Vec<Vec<u8>> {
    let H = p.H as usize;
    let n = (p.Kp + p.S) as usize;
    // MT
    let mut mt = vec![vec![0u8; n]; H];
    for j in 0..n - 1 {
        let (i1, i2) = mt_ones(p, j);
        mt[i1][j] = 1;
        mt[i2][j] = 1; // i1 != i2 by construction (r7 + 1 in 1..H-1)
    }
    for i in 0..H {
        mt[i][n - 1] = gf::alpha_pow(i as u64);
    }
    // alpha powers
    let pw: Vec<u8> = (0..255).map(|e| gf::alpha_pow(e)).collect();
    let mut g = vec![vec![0u8; n]; H];
    for i in 0..H {
        for j in 0..n {
            let mut acc = 0u8;
            for k in j..n {
                // GAMMA[k][j] = alpha^(k-j) for k >= j
                if mt[i][k] != 0 {
                    acc ^= gf::mul(mt[i][k], pw[(k - j) % 255]);
                }
            }
            g[i][j] = acc;
        }
    }
    g
}

/// Same matrix by the right-to-left recurrence G[i][j] = MT[i][j] + alpha * G[i][j+1]
pub fn hdpc_horner(p: &Params) -> Vec<Vec<u8>> {
    let H = p.H as usize;
    let n = (p.Kp + p.S) as usize;
    let mut g = vec![vec![0u8; n]; H];
    for i in 0..H {
        g[i][n - 1] = gf::alpha_pow(i as u64);
    }
    for j in (0..n - 1).rev() {
        for i in 0..H {
            g[i][j] = gf::mul(2, g[i][j + 1]);
        }
        let (i1, i2) = mt_ones(p, j);
        g[i1][j] ^= 1;
        g[i2][j] ^= 1;
    }
    g
}

static HDPC_CACHE: OnceLock<std::sync::Mutex<std::collections::HashMap<u32, std::sync::Arc<Vec<Vec<u8>>>>>> =
    OnceLock::new();

/// G_HDPC (H x (K'+S)); naive for K'+S <= 700, recurrence above (self-checked against naive below)
pub fn hdpc(p: &Params) -> std::sync::Arc<Vec<Vec<u8>>> {
    let cache = HDPC_CACHE.get_or_init(Default::default);
    if let Some(v) = cache.lock().unwrap().get(&p.Kp) {
        return v.clone();
    }
    let n = (p.Kp + p.S) as usize;
    let g = if n <= 700 {
        let a = hdpc_naive(p);
        let b = hdpc_horner(p);
        assert!(a == b, "rfcref self-check: HDPC naive vs recurrence differ for K'={}", p.Kp);
        a
    } else {
        hdpc_horner(p)
    };
    let g = std::sync::Arc::new(g);
    cache.lock().unwrap().insert(p.Kp, g.clone());
    g
}

/// Full dense row (length L) of the constraint matrix for HDPC row i: [G_HDPC | I_H]
pub fn hdpc_full_row(p: &Params, i: usize) -> Vec<u8> {
    let g = hdpc(p);
    let mut r = vec![0u8; p.L as usize];
    let n = (p.Kp + p.S) as usize;
    r[..n].copy_from_slice(&g[i]);
    r[n + i] = 1;
    r
}

pub fn dense_from_cols(L: usize, cols: &[usize]) -> Vec<u8> {
    let mut r = vec![0u8; L];
    for &c in cols {
        r[c] ^= 1;
    }
    r
}

/// LT row (length L) for internal symbol id X
pub fn lt_row(p: &Params, X: u32) -> Vec<u8> {
    dense_from_cols(p.L as usize, &enc_indices(p, tuple(p, X)))
}

// ---------------------------------------------------------------------------------------------
// Linear algebra over GF(256)
// ---------------------------------------------------------------------------------------------

/// Incremental row echelon basis: rank oracle carried along a DFS
#[derive(Clone)]
pub struct Echelon {
    pub L: usize,
    basis: Vec<Option<Vec<u8>>>, // indexed by pivot column, pivot normalised to 1
    pub rank: usize,
}

impl Echelon {
    pub fn new(L: usize) -> Self {
        Echelon {
            L,
            basis: vec![None; L],
            rank: 0,
        }
    }

    /// start with the fixed pre-code rows (LDPC + HDPC) of K'
    pub fn with_precode(p: &Params) -> Self {
        let mut e = Echelon::new(p.L as usize);
        for r in ldpc_rows(p) {
            let ok = e.insert(dense_from_cols(p.L as usize, &r));
            assert!(ok, "rfcref self-check: LDPC rows dependent");
        }
        for i in 0..p.H as usize {
            let ok = e.insert(hdpc_full_row(p, i));
            assert!(ok, "rfcref self-check: HDPC rows dependent");
        }
        e
    }

    /// LDPC rows only (the GF(2)-only system of the decoder's fast path)
    pub fn with_ldpc_only(p: &Params) -> Self {
        let mut e = Echelon::new(p.L as usize);
        for r in ldpc_rows(p) {
            e.insert(dense_from_cols(p.L as usize, &r));
        }
        e
    }

    /// returns true if the row increased the rank
    pub fn insert(&mut self, mut row: Vec<u8>) -> bool {
        let t = gf::table();
        for c in 0..self.L {
            let v = row[c];
            if v == 0 {
                continue;
            }
            match &self.basis[c] {
                Some(b) => {
                    let m = &t[v as usize];
                    for k in c..self.L {
                        row[k] ^= m[b[k] as usize];
                    }
                }
                None => {
                    let iv = gf::inv(v);
                    let m = &t[iv as usize];
                    for k in c..self.L {
                        row[k] = m[row[k] as usize];
                    }
                    self.basis[c] = Some(row);
                    self.rank += 1;
                    return true;
                }
            }
        }
        false
    }

    pub fn full(&self) -> bool {
        self.rank == self.L
    }
}

/// Solve A*C = D by plain Gaussian elimination. `rows`: dense rows of length L; `rhs`: symbols.
/// Returns None if rank < L; panics if the system is inconsistent.
pub fn solve_dense(L: usize, rows: &[Vec<u8>], rhs: &[Vec<u8>]) -> Option<Vec<Vec<u8>>> {
    let t = gf::table();
    let m = rows.len();
    let ts = rhs[0].len();
    let mut a: Vec<Vec<u8>> = rows.to_vec();
    let mut d: Vec<Vec<u8>> = rhs.to_vec();
    let mut prow = 0usize;
    for c in 0..L {
        // find pivot
        let mut piv = None;
        for r in prow..m {
            if a[r][c] != 0 {
                piv = Some(r);
                break;
            }
        }
        let piv = piv?;
        a.swap(prow, piv);
        d.swap(prow, piv);
        let iv = gf::inv(a[prow][c]);
        if iv != 1 {
            let mt = &t[iv as usize];
            for k in 0..L {
                a[prow][k] = mt[a[prow][k] as usize];
            }
            for k in 0..ts {
                d[prow][k] = mt[d[prow][k] as usize];
            }
        }
        for r in 0..m {
            if r != prow && a[r][c] != 0 {
                let f = a[r][c];
                let mt = &t[f as usize];
                let (src_a, src_d) = (a[prow].clone(), d[prow].clone());
                for k in 0..L {
                    a[r][k] ^= mt[src_a[k] as usize];
                }
                for k in 0..ts {
                    d[r][k] ^= mt[src_d[k] as usize];
                }
            }
        }
        prow += 1;
    }
    for r in L..m {
        assert!(d[r].iter().all(|&x| x == 0), "rfcref: inconsistent system");
    }
    d.truncate(L);
    Some(d)
}

/// Intermediate symbols for a source block of K symbols (reference solve; K' <= ~400 sensible)
pub fn intermediate_symbols(K: u32, source: &[Vec<u8>]) -> Vec<Vec<u8>> {
    assert_eq!(source.len(), K as usize);
    let p = params_for_k(K);
    let L = p.L as usize;
    let ts = source[0].len();
    let mut rows = Vec::with_capacity(L);
    let mut rhs = Vec::with_capacity(L);
    for r in ldpc_rows(&p) {
        rows.push(dense_from_cols(L, &r));
        rhs.push(vec![0u8; ts]);
    }
    for i in 0..p.H as usize {
        rows.push(hdpc_full_row(&p, i));
        rhs.push(vec![0u8; ts]);
    }
    for x in 0..p.Kp {
        rows.push(lt_row(&p, x));
        if x < K {
            rhs.push(source[x as usize].clone());
        } else {
            rhs.push(vec![0u8; ts]);
        }
    }
    solve_dense(L, &rows, &rhs).expect("RFC 6330 guarantees the encoding matrix is invertible")
}

/// Certificate check: do the symbols C satisfy all constraints of the block (LDPC, HDPC, LT incl. padding)?
/// Returns the first violated relation.
pub fn check_intermediate(K: u32, source: &[Vec<u8>], C: &[Vec<u8>]) -> Result<(), String> {
    let p = params_for_k(K);
    if C.len() != p.L as usize {
        return Err(format!("C has {} symbols, L = {}", C.len(), p.L));
    }
    let ts = source[0].len();
    for (i, r) in ldpc_rows(&p).iter().enumerate() {
        let mut acc = vec![0u8; ts];
        for &c in r {
            for k in 0..ts {
                acc[k] ^= C[c][k];
            }
        }
        if acc.iter().any(|&x| x != 0) {
            return Err(format!("LDPC relation {} violated", i));
        }
    }
    let g = hdpc(&p);
    let t = gf::table();
    let n = (p.Kp + p.S) as usize;
    for i in 0..p.H as usize {
        let mut acc = C[n + i].clone();
        for j in 0..n {
            let f = g[i][j];
            if f != 0 {
                let mt = &t[f as usize];
                for k in 0..ts {
                    acc[k] ^= mt[C[j][k] as usize];
                }
            }
        }
        if acc.iter().any(|&x| x != 0) {
            return Err(format!("HDPC relation {} violated", i));
        }
    }
    for x in 0..p.Kp {
        let e = enc_symbol(&p, C, x);
        if x < K {
            if e != source[x as usize] {
                return Err(format!("LT relation {}: Enc != source symbol", x));
            }
        } else if e.iter().any(|&b| b != 0) {
            return Err(format!("LT relation {}: padding symbol not zero", x));
        }
    }
    Ok(())
}

// ---------------------------------------------------------------------------------------------
// 4.4.1.2 Partition and layout, 4.3 parameter derivation, limits, wire formats
// ---------------------------------------------------------------------------------------------

/// Partition[I, J] = (IL, IS, JL, JS)
pub fn partition(I: u64, J: u64) -> (u64, u64, u64, u64) {
    let IL = (I + J - 1) / J;
    let IS = I / J;
    let JL = I - IS * J;
    let JS = J - JL;
    (IL, IS, JL, JS)
}

#[derive(Clone, Debug)]
pub struct BlockLayout {
    pub sbn: u8,
    pub K: u32,
    /// symbols[esi][byte] = Some(object offset) or None (zero padding)
    pub symbols: Vec<Vec<Option<u64>>>,
    /// object byte range [start, end) covered by the block (end may exceed F)
    pub start: u64,
    pub end: u64,
}

/// Source packet layout of an object of F bytes under (T, Z, N, Al)
pub fn layout(F: u64, T: u64, Z: u64, N: u64, Al: u64) -> Vec<BlockLayout> {
    assert!(T % Al == 0);
    let Kt = (F + T - 1) / T;
    let (KL, KS, ZL, ZS) = partition(Kt, Z);
    let (TL, TS, NL, NS) = partition(T / Al, N);
    let mut blocks = Vec::new();
    let mut off = 0u64;
    for z in 0..(ZL + ZS) {
        let K = if z < ZL { KL } else { KS };
        let mut symbols: Vec<Vec<Option<u64>>> = vec![Vec::with_capacity(T as usize); K as usize];
        // sub-blocks are contiguous inside the block
        let mut sub_off = off;
        for j in 0..(NL + NS) {
            let size = if j < NL { TL * Al } else { TS * Al };
            for m in 0..K {
                for byte in 0..size {
                    let o = sub_off + m * size + byte;
                    symbols[m as usize].push(if o < F { Some(o) } else { None });
                }
            }
            sub_off += K * size;
        }
        assert_eq!(sub_off, off + K * T);
        blocks.push(BlockLayout {
            sbn: z as u8,
            K: K as u32,
            symbols,
            start: off,
            end: off + K * T,
        });
        off += K * T;
    }
    assert_eq!(off, Kt * T);
    blocks
}

pub const MAX_TRANSFER_LENGTH: u64 = 942574504275;
pub const KPRIME_MAX: u64 = 56403;

/// Does (F, T, Z, N, Al) satisfy the limits documented by `ObjectTransmissionInformation::new`?
pub fn oti_accept(F: u64, T: u64, Z: u64, _N: u64, Al: u64) -> bool {
    assert!(T >= 1 && Z >= 1 && Al >= 1);
    if F > MAX_TRANSFER_LENGTH {
        return false;
    }
    if T % Al != 0 {
        return false;
    }
    let Kt = (F as u128 + T as u128 - 1) / T as u128;
    let per_block = (Kt + Z as u128 - 1) / Z as u128;
    per_block <= KPRIME_MAX as u128
}

/// RFC 6330 4.3 derivation with the implementation's choice Al = SS = 8 if P' >= 64 else 1.
/// Returns None when no valid configuration exists (nothing fits the budget, Z > 255, T < Al).
pub fn derive(F: u64, Pp: u64, WS: u64) -> Option<(u64, u64, u64, u64)> {
    let (Al, SS) = if Pp >= 64 { (8u64, 8u64) } else { (1u64, 1u64) };
    if Pp < Al || F == 0 {
        return None;
    }
    let T = (Pp / Al) * Al;
    let Kt = (F as u128 + T as u128 - 1) / T as u128;
    let Nmax = T / (SS * Al);
    if Nmax == 0 {
        return None;
    }
    let KL = |n: u64| -> Option<u128> {
        let x = (T as u128 + (Al * n) as u128 - 1) / (Al * n) as u128; // ceil(T/(Al*n))
        let bound = WS as u128 / (Al as u128 * x);
        let mut best = None;
        for row in TABLE2.iter() {
            if row.0 as u128 <= bound {
                best = Some(row.0 as u128);
            }
        }
        best
    };
    let klmax = KL(Nmax)?;
    let Z = (Kt + klmax - 1) / klmax;
    if Z == 0 || Z > 255 {
        return None;
    }
    let per = (Kt + Z - 1) / Z;
    for n in 1..=Nmax {
        if let Some(k) = KL(n) {
            if per <= k {
                return Some((T, Z as u64, n, Al));
            }
        }
    }
    unreachable!("n = Nmax always satisfies the condition");
}

pub fn payload_id_bytes(sbn: u8, esi: u32) -> [u8; 4] {
    assert!(esi < (1 << 24));
    [sbn, (esi / 65536) as u8, ((esi / 256) % 256) as u8, (esi % 256) as u8]
}

pub fn oti_bytes(F: u64, T: u64, Z: u64, N: u64, Al: u64) -> [u8; 12] {
    assert!(F < (1 << 40) && T < 65536 && Z < 256 && N < 65536 && Al < 256);
    [
        ((F >> 32) & 0xFF) as u8,
        ((F >> 24) & 0xFF) as u8,
        ((F >> 16) & 0xFF) as u8,
        ((F >> 8) & 0xFF) as u8,
        (F & 0xFF) as u8,
        0,
        (T >> 8) as u8,
        (T & 0xFF) as u8,
        Z as u8,
        (N >> 8) as u8,
        (N & 0xFF) as u8,
        Al as u8,
    ]
}

// ---------------------------------------------------------------------------------------------
// Self tests of the reference (facts that do not come from /repo)
// ---------------------------------------------------------------------------------------------
pub fn self_test() -> Result<(), String> {
    // field: alpha generates, 0x11D, a few facts known independently
    if gf::mul_slow(2, 128) != 29 {
        return Err("2*128 != 29".into());
    }
    if gf::alpha_pow(8) != 29 || gf::alpha_pow(255) != 1 || gf::alpha_pow(254) != gf::inv(2) {
        return Err("alpha powers".into());
    }
    let mut seen = [false; 256];
    for e in 0..255 {
        seen[gf::alpha_pow(e) as usize] = true;
    }
    if seen.iter().filter(|&&x| x).count() != 255 || seen[0] {
        return Err("alpha is not a generator".into());
    }
    // Table 2 structure
    let mut prev = 0;
    for i in 0..TABLE2.len() {
        let p = params_by_index(i);
        if p.Kp <= prev {
            return Err("K' not increasing".into());
        }
        prev = p.Kp;
        if !is_prime(p.S) || !is_prime(p.W) {
            return Err(format!("S/W not prime at K'={}", p.Kp));
        }
        if p.L >= 65536 || p.W < p.S + 1 || p.P < p.H || p.H < 2 {
            return Err(format!("parameter relation at K'={}", p.Kp));
        }
    }
    if TABLE2[0] != (10, 254, 7, 10, 17) || TABLE2[476].0 != 56403 {
        return Err("Table 2 ends".into());
    }
    if DEG_F[0] != 0 || DEG_F[30] != 1048576 || DEG_F.windows(2).any(|w| w[0] >= w[1]) {
        return Err("degree table".into());
    }
    // partition sums
    for i in 0..200u64 {
        for j in 1..50u64 {
            let (il, is, jl, js) = partition(i, j);
            if jl + js != j || il * jl + is * js != i || il < is || il - is > 1 {
                return Err(format!("partition({},{})", i, j));
            }
        }
    }
    // own solve reproduces the source symbols through own Enc
    for &k in &[1u32, 5, 10, 11, 27] {
        let src: Vec<Vec<u8>> = (0..k).map(|i| vec![(i * 7 + 1) as u8, (i * 13 + 5) as u8]).collect();
        let c = intermediate_symbols(k, &src);
        check_intermediate(k, &src, &c)?;
    }
    // layout is a bijection from object offsets to (sbn, esi, byte)
    for &(f, t, z, n, al) in &[(23u64, 4u64, 3u64, 2u64, 2u64), (17, 6, 2, 3, 1), (1, 8, 1, 2, 4), (64, 8, 2, 1, 8)] {
        let bl = layout(f, t, z, n, al);
        let mut hit = vec![0u32; f as usize];
        for b in &bl {
            for s in &b.symbols {
                if s.len() != t as usize {
                    return Err("layout symbol size".into());
                }
                for o in s.iter().flatten() {
                    hit[*o as usize] += 1;
                }
            }
        }
        if hit.iter().any(|&h| h != 1) {
            return Err(format!("layout not a bijection for {:?}", (f, t, z, n, al)));
        }
    }
    // derive satisfies the defining inequalities on a small grid
    for pp in [1u64, 2, 7, 63, 64, 100, 1024] {
        for ws in [10u64, 100, 5000, 1 << 20, 10 << 20] {
            for f in [1u64, 10, 1000, 123457] {
                if let Some((t, z, n, al)) = derive(f, pp, ws) {
                    if t % al != 0 || t > pp || t + al <= pp || n < 1 || n > t / al {
                        return Err("derive basic".into());
                    }
                    if !oti_accept(f, t, z, n, al) {
                        return Err("derive gives unacceptable OTI".into());
                    }
                }
            }
        }
    }
    Ok(())
}
