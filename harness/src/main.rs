//! rqcheck: bounded-exhaustive checks of the properties C01..C19 of cberner/raptorq (see /verif/DESIGN.md)
#![allow(clippy::needless_range_loop, clippy::too_many_arguments, clippy::type_complexity)]
mod common;
mod explore;
mod rfcref;
mod tables;

mod c01;
mod c02;
mod c03;
mod c04;
mod c05;
mod c06;
mod c07;
mod digest;
mod c08;
mod c09;
mod c10;
mod c11;
mod c12;
mod kern;
mod pageheap;
mod codec;
mod c13;
mod c14;
mod c15;
mod c16;
mod c17;
mod c18;
mod c19;

use common::*;

#[global_allocator]
static GLOBAL: pageheap::PageHeap = pageheap::PageHeap;
use std::time::Instant;

fn usage() -> ! {
    eprintln!("usage: rqcheck <C01..C19|selftest> [--tier quick|thorough] [--replay FILE] [--verif-dir DIR]");
    std::process::exit(2);
}

fn main() {
    let args: Vec<String> = std::env::args().skip(1).collect();
    if args.is_empty() {
        usage();
    }
    let id = args[0].to_uppercase();
    let mut tier = match std::env::var("VERIF_TIER").as_deref() {
        Ok("thorough") => Tier::Thorough,
        _ => Tier::Quick,
    };
    let mut replay: Option<String> = None;
    let mut replay_case: Option<String> = None;
    let mut verif_dir = std::path::PathBuf::from("/verif");
    let mut i = 1;
    while i < args.len() {
        match args[i].as_str() {
            "--tier" => {
                i += 1;
                tier = match args.get(i).map(|s| s.as_str()) {
                    Some("quick") => Tier::Quick,
                    Some("thorough") => Tier::Thorough,
                    _ => usage(),
                };
            }
            "--replay" => {
                i += 1;
                replay = Some(args.get(i).cloned().unwrap_or_else(|| usage()));
            }
            "--replay-case" => {
                i += 1;
                replay_case = Some(args.get(i).cloned().unwrap_or_else(|| usage()));
            }
            "--verif-dir" => {
                i += 1;
                verif_dir = args.get(i).cloned().unwrap_or_else(|| usage()).into();
            }
            _ => {}
        }
        i += 1;
    }
    let seed = std::env::var("VERIF_SEED").ok().and_then(|s| s.parse::<u64>().ok()).unwrap_or(1);
    install_quiet_panic_hook();
    let ctx = Ctx { id: id.clone(), tier, seed, verif_dir, start: Instant::now(), threads: num_threads(), args: args.clone() };

    if id == "SELFTEST" {
        match rfcref::self_test() {
            Ok(()) => { println!("rfcref self-test ok"); std::process::exit(0) }
            Err(e) => { println!("MACHINERY-FAILURE: rfcref self-test: {}", e); std::process::exit(2) }
        }
    }
    if let Err(e) = rfcref::self_test() {
        machinery_failure(&format!("rfcref self-test: {}", e));
    }

    // watchdog: a library call that never returns (e.g. a lost wake-up between threads sharing the plan cache)
    // must end the run as a machinery failure instead of hanging the caller for ever
    {
        let cap: u64 = std::env::var("VERIF_WALL_CAP_S").ok().and_then(|v| v.parse().ok()).unwrap_or(if tier == Tier::Quick { 1200 } else { 6 * 3600 });
        let idc = id.clone();
        std::thread::spawn(move || {
            std::thread::sleep(std::time::Duration::from_secs(cap));
            println!("MACHINERY-FAILURE: {} did not finish within the wall-clock cap of {} s (VERIF_WALL_CAP_S); a library call may be hanging", idc, cap);
            std::process::exit(2);
        });
    }

    let (run, rep): (fn(&Ctx) -> i32, ReplayFn) = match id.as_str() {
        "C01" => (c01::run, c01::replay),
        "C02" => (c02::run, c02::replay),
        "C03" => (c03::run, c03::replay),
        "C04" => (c04::run, c04::replay),
        "C05" => (c05::run, c05::replay),
        "C06" => (c06::run, c06::replay),
        "C07" => (c07::run, c07::replay),
        "C08" => (c08::run, c08::replay),
        "C09" => (c09::run, c09::replay),
        "C10" => (c10::run, c10::replay),
        "C11" => (c11::run, c11::replay),
        "C12" => (c12::run, c12::replay),
        "C13" => (c13::run, c13::replay),
        "C14" => (c14::run, c14::replay),
        "C15" => (c15::run, c15::replay),
        "C16" => (c16::run, c16::replay),
        "C17" => (c17::run, c17::replay),
        "C18" => (c18::run, c18::replay),
        "C19" => (c19::run, c19::replay),
        _ => usage(),
    };
    if let Some(c) = replay_case {
        let case: serde_json::Value = serde_json::from_str(&c).unwrap_or_else(|e| machinery_failure(&format!("bad --replay-case: {}", e)));
        let r = guarded(|| rep(&case)).unwrap_or_else(|p| Err(format!("panic in replay: {}", p)));
        match r {
            Ok(()) => { println!("REPLAY property={} outcome=pass", id); std::process::exit(0) }
            Err(m) => { println!("REPLAY property={} outcome=violation msg={}", id, m); std::process::exit(1) }
        }
    }
    let code = match replay {
        Some(path) => run_replay_generic(&id, &path, rep),
        None => match guarded(|| run(&ctx)) {
            Ok(c) => c,
            Err(m) => fatal_panic(&ctx, &m, rep),
        },
    };
    std::process::exit(code);
}

fn run_replay_generic(id: &str, path: &str, rep: ReplayFn) -> i32 {
    let s = std::fs::read_to_string(path).unwrap_or_else(|e| machinery_failure(&format!("read {}: {}", path, e)));
    let doc: serde_json::Value = serde_json::from_str(&s).unwrap_or_else(|e| machinery_failure(&format!("parse {}: {}", path, e)));
    if let Some(r) = replay_generic(id, &doc["case"]) {
        return match r {
            Ok(()) => { println!("REPLAY property={} outcome=pass", id); 0 }
            Err(m) => { println!("REPLAY property={} outcome=violation msg={}", id, m); 1 }
        };
    }
    run_replay(path, rep)
}
