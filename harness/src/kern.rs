//! Kernel grid shared by C11 (element-wise results, canaries) and C12 (guard pages).
use crate::common::*;
use crate::rfcref::gf;
use raptorq::verif as rq;
use raptorq::verif::verif_kernels as vk;
use serde_json::{json, Value};

#[derive(Clone, Copy, PartialEq, Eq, Debug)]
pub enum Op {
    Add,
    Mul,
    Fma,
    FmaBin,
}

impl Op {
    pub fn name(self) -> &'static str {
        match self {
            Op::Add => "add_assign",
            Op::Mul => "mulassign_scalar",
            Op::Fma => "fused_addassign_mul_scalar",
            Op::FmaBin => "fused_addassign_mul_scalar_binary",
        }
    }
    pub fn from(s: &str) -> Op {
        match s {
            "add_assign" => Op::Add,
            "mulassign_scalar" => Op::Mul,
            "fused_addassign_mul_scalar" => Op::Fma,
            _ => Op::FmaBin,
        }
    }
    pub const ALL: [Op; 4] = [Op::Add, Op::Mul, Op::Fma, Op::FmaBin];
}

pub fn kind_name(k: u8) -> &'static str {
    match k {
        vk::AUTO => "dispatcher",
        vk::AVX512 => "avx512",
        vk::AVX2 => "avx2",
        vk::SSSE3 => "ssse3",
        vk::FALLBACK => "portable",
        _ => "?",
    }
}

pub fn kind_from(s: &str) -> u8 {
    match s {
        "avx512" => vk::AVX512,
        "avx2" => vk::AVX2,
        "ssse3" => vk::SSSE3,
        "portable" => vk::FALLBACK,
        _ => vk::AUTO,
    }
}

pub fn kinds() -> Vec<u8> {
    [vk::AUTO, vk::AVX512, vk::AVX2, vk::SSSE3, vk::FALLBACK].into_iter().filter(|&k| k == vk::AUTO || vk::supported(k)).collect()
}

/// content generators (named, so a case is replayable)
pub fn content(name: &str, len: usize, salt: u64) -> Vec<u8> {
    if let Some(p) = name.strip_prefix("onehot:") {
        let p: usize = p.parse().unwrap();
        let mut v = vec![0u8; len];
        if p < len {
            v[p] = 0xA7;
        }
        return v;
    }
    if let Some(r) = name.strip_prefix("rot:") {
        let r: usize = r.parse().unwrap();
        return (0..len).map(|i| ((i / 64) + 5 * r + (i % 64) * 7) as u8).collect();
    }
    match name {
        "00" => vec![0; len],
        "ff" => vec![0xFF; len],
        "pos" => data_pos(len),
        "lcg" => data_lcg(salt, len),
        "alt" => (0..len).map(|i| if i % 2 == 0 { 0xAA } else { 0x55 }).collect(),
        _ => panic!("content {}", name),
    }
}

/// binary content: 0/1 per element
pub fn bin_content(name: &str, len: usize) -> Vec<u8> {
    if let Some(p) = name.strip_prefix("onehot:") {
        let p: usize = p.parse().unwrap();
        let mut v = vec![0u8; len];
        if p < len {
            v[p] = 1;
        }
        return v;
    }
    match name {
        "00" => vec![0; len],
        "ff" => vec![1; len],
        "alt" => (0..len).map(|i| (i % 2) as u8).collect(),
        "alt3" => (0..len).map(|i| (i % 3 == 0) as u8).collect(),
        _ => data_lcg(77, len).into_iter().map(|b| b & 1).collect(),
    }
}

pub fn pack_bits(bits: &[u8]) -> rq::BinaryOctetVec {
    let len = bits.len();
    let words = len.div_ceil(64);
    let padding = (64 - len % 64) % 64;
    let mut el = vec![0u64; words];
    for (e, &b) in bits.iter().enumerate() {
        if b != 0 {
            let pos = padding + e;
            el[pos / 64] |= 1u64 << (pos % 64);
        }
    }
    rq::BinaryOctetVec::new(el, len)
}

pub fn expected(op: Op, dest0: &[u8], src: &[u8], c: u8) -> Vec<u8> {
    match op {
        Op::Add => dest0.iter().zip(src).map(|(d, s)| d ^ s).collect(),
        Op::Mul => dest0.iter().map(|&d| gf::mul(d, c)).collect(),
        Op::Fma => dest0.iter().zip(src).map(|(d, s)| d ^ gf::mul(*s, c)).collect(),
        Op::FmaBin => dest0.iter().zip(src).map(|(d, s)| d ^ if *s != 0 { c } else { 0 }).collect(),
    }
}

pub enum Src<'a> {
    Bytes(&'a [u8]),
    Bits(&'a rq::BinaryOctetVec),
}

/// run the real kernel
pub fn apply_src(op: Op, kind: u8, dest: &mut [u8], src: Src, c: u8) -> Result<(), String> {
    let sc = rq::Octet::new(c);
    let r = guarded(|| match (op, src) {
        (Op::Add, Src::Bytes(src)) => {
            if kind == vk::AUTO {
                rq::add_assign(dest, src);
                true
            } else {
                vk::add_assign_with(kind, dest, src)
            }
        }
        (Op::Mul, _) => {
            if kind == vk::AUTO {
                rq::mulassign_scalar(dest, &sc);
                true
            } else {
                vk::mulassign_with(kind, dest, &sc)
            }
        }
        (Op::Fma, Src::Bytes(src)) => {
            if kind == vk::AUTO {
                rq::fused_addassign_mul_scalar(dest, src, &sc);
                true
            } else {
                vk::fma_with(kind, dest, src, &sc)
            }
        }
        (Op::FmaBin, Src::Bits(bits)) => {
            if kind == vk::AUTO {
                rq::fused_addassign_mul_scalar_binary(dest, bits, &sc);
                true
            } else {
                vk::fma_binary_with(kind, dest, bits, &sc)
            }
        }
        _ => panic!("operand kind mismatch"),
    });
    match r {
        Ok(true) => Ok(()),
        Ok(false) => Err("kernel not available".into()),
        Err(p) => Err(format!("panic {}", p)),
    }
}

/// `src` are octets (Add/Fma) or 0/1 values (FmaBin, packed here)
pub fn apply(op: Op, kind: u8, dest: &mut [u8], src: &[u8], c: u8) -> Result<(), String> {
    if op == Op::FmaBin {
        let bits = pack_bits(src);
        apply_src(op, kind, dest, Src::Bits(&bits), c)
    } else {
        apply_src(op, kind, dest, Src::Bytes(src), c)
    }
}

/// is the scalar admissible for the documented preconditions of the public dispatcher in this build?
pub fn scalar_ok(op: Op, kind: u8, c: u8) -> bool {
    if kind != vk::AUTO || !is_checked_build() {
        return true; // the kernels themselves have no scalar precondition; release dispatchers neither
    }
    match op {
        Op::Fma => c != 0 && c != 1,
        Op::FmaBin => c != 0,
        _ => true,
    }
}

#[derive(Clone, Debug)]
pub struct Case {
    pub op: Op,
    pub kind: u8,
    pub len: usize,
    pub doff: usize,
    pub soff: usize,
    pub dcontent: String,
    pub scontent: String,
    pub scalar: u8,
}

impl Case {
    pub fn json(&self) -> Value {
        json!({"op": self.op.name(), "kernel": kind_name(self.kind), "len": self.len, "dest_offset": self.doff, "src_offset": self.soff, "dest_content": self.dcontent, "src_content": self.scontent, "scalar": self.scalar})
    }
    pub fn from_json(v: &Value) -> Case {
        Case {
            op: Op::from(v["op"].as_str().unwrap_or("")),
            kind: kind_from(v["kernel"].as_str().unwrap_or("")),
            len: v["len"].as_u64().unwrap_or(0) as usize,
            doff: v["dest_offset"].as_u64().unwrap_or(0) as usize,
            soff: v["src_offset"].as_u64().unwrap_or(0) as usize,
            dcontent: v["dest_content"].as_str().unwrap_or("pos").to_string(),
            scontent: v["src_content"].as_str().unwrap_or("lcg").to_string(),
            scalar: v["scalar"].as_u64().unwrap_or(0) as u8,
        }
    }
    pub fn key(&self) -> String {
        format!("{}:{}:{}:{}:{}:{}:{}:{}", self.op.name(), kind_name(self.kind), self.len, self.doff, self.soff, self.dcontent, self.scontent, self.scalar)
    }
}

pub const CANARY: u8 = 0xC5;
pub const MARGIN: usize = 64;

/// reusable 64-byte aligned scratch areas
pub struct Scratch {
    dbuf: Vec<u8>,
    sbuf: Vec<u8>,
    dbase: usize,
    sbase: usize,
}

impl Scratch {
    pub fn new(max_len: usize) -> Scratch {
        let cap = max_len + 4 * MARGIN + 256;
        let dbuf = vec![0u8; cap];
        let sbuf = vec![0u8; cap];
        let dbase = dbuf.as_ptr().align_offset(64);
        let sbase = sbuf.as_ptr().align_offset(64);
        Scratch { dbuf, sbuf, dbase, sbase }
    }
}

/// C11 placement: operands at given offsets inside larger buffers, canaries around the destination
pub fn eval_offsets(c: &Case, sc: &mut Scratch, d0: &[u8], s0: &[u8]) -> Result<(), String> {
    let len = c.len;
    let ds = sc.dbase + MARGIN + c.doff;
    let ss = sc.sbase + MARGIN + c.soff;
    for b in sc.dbuf[ds - MARGIN..ds + len + MARGIN].iter_mut() {
        *b = CANARY;
    }
    sc.dbuf[ds..ds + len].copy_from_slice(d0);
    for b in sc.sbuf[ss - MARGIN..ss + len + MARGIN].iter_mut() {
        *b = CANARY;
    }
    sc.sbuf[ss..ss + len].copy_from_slice(s0);
    let want = expected(c.op, d0, s0, c.scalar);
    {
        let (dbuf, sbuf) = (&mut sc.dbuf, &sc.sbuf);
        apply(c.op, c.kind, &mut dbuf[ds..ds + len], &sbuf[ss..ss + len], c.scalar)?;
    }
    if sc.dbuf[ds..ds + len] != want[..] {
        let i = (0..len).find(|&i| sc.dbuf[ds + i] != want[i]).unwrap();
        return Err(format!("element {}: got {:#04x}, element-wise field result {:#04x} (dest {:#04x}, src {:#04x}, scalar {:#04x})", i, sc.dbuf[ds + i], want[i], d0[i], s0[i], c.scalar));
    }
    if sc.dbuf[ds - MARGIN..ds].iter().any(|&b| b != CANARY) || sc.dbuf[ds + len..ds + len + MARGIN].iter().any(|&b| b != CANARY) {
        return Err("bytes outside the destination slice were modified".into());
    }
    if sc.sbuf[ss..ss + len] != s0[..] || sc.sbuf[ss - MARGIN..ss].iter().any(|&b| b != CANARY) || sc.sbuf[ss + len..ss + len + MARGIN].iter().any(|&b| b != CANARY) {
        return Err("the source operand was modified".into());
    }
    Ok(())
}

/// C12 placement: exact-size heap operands (the page-heap allocator puts them against a guard page).
/// The operand objects are kept across cases with the same contents, so that the number of mmap calls stays small.
pub struct ExactBufs {
    tag: String,
    d: Vec<u8>,
    s: Vec<u8>,
    bits: Option<rq::BinaryOctetVec>,
}

impl ExactBufs {
    pub fn new() -> ExactBufs {
        ExactBufs { tag: String::new(), d: vec![], s: vec![], bits: None }
    }
}

pub fn eval_exact_cached(c: &Case, bufs: &mut ExactBufs, d0: &[u8], s0: &[u8]) -> Result<(), String> {
    let tag = format!("{}:{}:{}:{}", c.op.name(), c.len, c.dcontent, c.scontent);
    if bufs.tag != tag {
        let mut d: Vec<u8> = Vec::with_capacity(c.len);
        d.extend_from_slice(d0);
        let mut s: Vec<u8> = Vec::with_capacity(c.len);
        s.extend_from_slice(s0);
        bufs.bits = if c.op == Op::FmaBin { Some(pack_bits(s0)) } else { None };
        bufs.d = d;
        bufs.s = s;
        bufs.tag = tag;
    }
    bufs.d.copy_from_slice(d0);
    let r = match &bufs.bits {
        Some(b) => apply_src(c.op, c.kind, &mut bufs.d[..], Src::Bits(b), c.scalar),
        None => apply_src(c.op, c.kind, &mut bufs.d[..], Src::Bytes(&bufs.s[..]), c.scalar),
    };
    r?;
    for i in 0..c.len {
        let want = match c.op {
            Op::Add => d0[i] ^ s0[i],
            Op::Mul => gf::mul(d0[i], c.scalar),
            Op::Fma => d0[i] ^ gf::mul(s0[i], c.scalar),
            Op::FmaBin => d0[i] ^ if s0[i] != 0 { c.scalar } else { 0 },
        };
        if bufs.d[i] != want {
            return Err(format!("element {} differs from the element-wise field result", i));
        }
    }
    if bufs.s[..] != s0[..] {
        return Err("the source operand was modified".into());
    }
    Ok(())
}

pub fn eval_exact(c: &Case, d0: &[u8], s0: &[u8]) -> Result<(), String> {
    let mut b = ExactBufs::new();
    eval_exact_cached(c, &mut b, d0, s0)
}

pub fn replay_case(v: &Value, exact: bool) -> Result<(), String> {
    let c = Case::from_json(v);
    if c.kind != vk::AUTO && !vk::supported(c.kind) {
        return Err("kernel not supported on this host".into());
    }
    let d0 = content(&c.dcontent, c.len, 1);
    let s0 = if c.op == Op::FmaBin { bin_content(&c.scontent, c.len) } else { content(&c.scontent, c.len, 2) };
    if exact {
        eval_exact(&c, &d0, &s0)
    } else {
        let mut sc = Scratch::new(c.len);
        eval_offsets(&c, &mut sc, &d0, &s0)
    }
}
