//! C09 — the code is GF(256)-linear and acts independently on every byte column.
use crate::codec::*;
use crate::common::*;
use crate::rfcref::gf;
use raptorq::verif::verif_kernels as vk;
use raptorq::{EncodingPacket, SourceBlockEncoder, SourceBlockEncodingPlan};
use serde_json::{json, Map, Value};

fn kind_name(k: u8) -> &'static str {
    match k {
        vk::AUTO => "auto",
        vk::AVX512 => "avx512",
        vk::AVX2 => "avx2",
        vk::SSSE3 => "ssse3",
        vk::FALLBACK => "portable",
        _ => "?",
    }
}

fn kind_from(s: &str) -> u8 {
    match s {
        "avx512" => vk::AVX512,
        "avx2" => vk::AVX2,
        "ssse3" => vk::SSSE3,
        "portable" => vk::FALLBACK,
        _ => vk::AUTO,
    }
}

fn esis_for(k: u32) -> Vec<u32> {
    let mut v: Vec<u32> = (0..k + 8).collect();
    v.extend(far_esis(k));
    v
}

fn build(k: u32, t: u16, data: &[u8], mode: u8, plan: &SourceBlockEncodingPlan) -> SourceBlockEncoder {
    let cfg = block_cfg(k, t);
    match mode {
        0 => SourceBlockEncoder::new(0, &cfg, data),
        1 => SourceBlockEncoder::with_encoding_plan(0, &cfg, data, plan),
        _ => SourceBlockEncoder::verif_new_unplanned(0, &cfg, data, 250),
    }
}

fn packets(enc: &SourceBlockEncoder, k: u32) -> Vec<EncodingPacket> {
    let mut v = enc.source_packets();
    v.extend(enc.repair_packets(0, 8));
    for e in far_esis(k) {
        v.push(repair_packet(enc, k, e));
    }
    v
}

fn payloads(enc: &SourceBlockEncoder, k: u32) -> Vec<Vec<u8>> {
    packets(enc, k).into_iter().map(|p| p.data().to_vec()).collect()
}

/// all relations for one (K, T) under the currently forced kernel
fn check_kt(k: u32, t: u16, all_scalars: bool, mode: u8) -> Result<u64, String> {
    let tt = t as usize;
    let len = k as usize * tt;
    let plan = SourceBlockEncodingPlan::generate(k as u16);
    let a = data_pos(len);
    let b = data_lcg(9, len);
    let ctx = format!("K={} T={} mode={}", k, t, ["cache", "plan", "unplanned"][mode as usize]);
    let r = guarded(|| {
        let mut n = 0u64;
        let pa = payloads(&build(k, t, &a, mode, &plan), k);
        let pb = payloads(&build(k, t, &b, mode, &plan), k);
        let ids = esis_for(k);
        if pa.len() != ids.len() {
            return Err(format!("{}: {} packets", ctx, pa.len()));
        }
        // (i) column independence: byte j of every packet = 1-byte packet of column j
        for (name, d, pd) in [("pos", &a, &pa), ("lcg", &b, &pb)] {
            for j in 0..tt {
                // giant symbols: every column for the first 256 and the last 64, every 97th in between
                if tt > 2048 && !(j < 256 || j + 64 >= tt || j % 97 == 0) {
                    continue;
                }
                let col: Vec<u8> = (0..k as usize).map(|i| d[i * tt + j]).collect();
                let pc = payloads(&build(k, 1, &col, mode, &plan), k);
                n += 1;
                for (e, p) in pd.iter().enumerate() {
                    if p[j] != pc[e][0] {
                        return Err(format!("{}: data {} ESI {}: byte {} of the T-byte packet is {:#04x}, encoding byte column {} alone gives {:#04x}", ctx, name, ids[e], j, p[j], j, pc[e][0]));
                    }
                }
            }
        }
        // (ii) additivity
        let mut unit = vec![0u8; len];
        unit[0] = 1;
        let ff = data_ff(len);
        let pu = payloads(&build(k, t, &unit, mode, &plan), k);
        let pf = payloads(&build(k, t, &ff, mode, &plan), k);
        let named: [(&str, &Vec<u8>, &Vec<Vec<u8>>); 4] = [("pos", &a, &pa), ("lcg", &b, &pb), ("unit0", &unit, &pu), ("ff", &ff, &pf)];
        for x in 0..4 {
            for y in x + 1..4 {
                let sum: Vec<u8> = named[x].1.iter().zip(named[y].1.iter()).map(|(p, q)| p ^ q).collect();
                let ps = payloads(&build(k, t, &sum, mode, &plan), k);
                n += 1;
                for e in 0..ps.len() {
                    let want: Vec<u8> = named[x].2[e].iter().zip(named[y].2[e].iter()).map(|(p, q)| p ^ q).collect();
                    if ps[e] != want {
                        return Err(format!("{}: Enc({} xor {}) != Enc({}) xor Enc({}) at ESI {}", ctx, named[x].0, named[y].0, named[x].0, named[y].0, ids[e]));
                    }
                }
            }
        }
        // (iii) homogeneity for scalars
        let scalars: Vec<u8> = if all_scalars { (0..=255).collect() } else { vec![0, 1, 2, 0x1D, 0x80, 0xFF] };
        for &c in &scalars {
            let ca: Vec<u8> = b.iter().map(|&x| gf::mul(c, x)).collect();
            let pc = payloads(&build(k, t, &ca, mode, &plan), k);
            n += 1;
            for e in 0..pc.len() {
                let want: Vec<u8> = pb[e].iter().map(|&x| gf::mul(c, x)).collect();
                if pc[e] != want {
                    return Err(format!("{}: Enc({}*A) != {}*Enc(A) at ESI {}", ctx, c, c, ids[e]));
                }
            }
        }
        // (iv) decoding a fixed erasure pattern returns the data for this T
        let all = packets(&build(k, t, &a, mode, &plan), k);
        let mut dec = raptorq::SourceBlockDecoder::new(0, &block_cfg(k, t), len as u64);
        let erased = [0u32, k / 2];
        let feed: Vec<EncodingPacket> = all.iter().filter(|p| !erased.contains(&p.payload_id().encoding_symbol_id())).cloned().collect();
        n += 1;
        match dec.decode(feed) {
            Some(d) => {
                if d != a {
                    return Err(format!("{}: decoding with symbols {:?} erased returns wrong data", ctx, erased));
                }
            }
            None => return Err(format!("{}: decoding with symbols {:?} erased and 12 repair symbols fails (it succeeds for T=1)", ctx, erased)),
        }
        Ok(n)
    });
    match r {
        Ok(x) => x,
        Err(p) => Err(format!("{}: panic {}", ctx, p)),
    }
}


/// column patterns for the T sweep: 7 fixed K-byte columns; column j of the T-byte-symbol block carries pattern idx(j)
fn sweep_idx(j: usize) -> usize {
    (j + j / 7 + j / 64 + j / 4096) % 7
}

fn sweep_patterns(k: u32) -> Vec<Vec<u8>> {
    let k = k as usize;
    let mut v = vec![data_pos(k), data_lcg(3, k), data_ff(k), data_lcg(77, k), vec![0u8; k], data_lcg(5, k), data_pos(2 * k)[k..].to_vec()];
    v[4][k / 2] = 1;
    v
}

/// (v) T sweep: one encode per (K, T); every byte column of every packet must equal the 1-byte packet of the
/// pattern that column carries, and decoding with two erasures must return the data
/// structured symbols: symbol i is one 8-byte word repeated (zero word, constant byte, arbitrary word), so that
/// byte column j only depends on j mod 8 and whole symbols are zero / constant / periodic
fn structured_columns(k: u32) -> Vec<Vec<u8>> {
    let k = k as usize;
    let r = data_lcg(41, 8 * k);
    (0..8)
        .map(|c| {
            (0..k)
                .map(|i| match i % 4 {
                    0 => 0u8,
                    1 => 0xA5u8.wrapping_add(i as u8) | 1,
                    2 => r[8 * i + c],
                    _ => if c % 2 == 0 { r[8 * i] } else { r[8 * i + 1] },
                })
                .collect()
        })
        .collect()
}

fn check_sweep(k: u32, t: u16, mode: u8, plan: &SourceBlockEncodingPlan, pc: &[Vec<Vec<u8>>], structured: bool) -> Result<u64, String> {
    let tt = t as usize;
    let pats = if structured { structured_columns(k) } else { sweep_patterns(k) };
    let sweep_idx = |j: usize| if structured { j % 8 } else { sweep_idx(j) };
    let mut data = vec![0u8; k as usize * tt];
    for i in 0..k as usize {
        for j in 0..tt {
            data[i * tt + j] = pats[sweep_idx(j)][i];
        }
    }
    let ctx = format!("K={} T={} mode={} ({})", k, t, ["cache", "plan", "unplanned"][mode as usize], if structured { "structured symbols: zero / constant / periodic" } else { "sweep" });
    let ids = esis_for(k);
    let r = guarded(|| {
        let enc = build(k, t, &data, mode, plan);
        let all = packets(&enc, k);
        if all.len() != ids.len() {
            return Err(format!("{}: {} packets", ctx, all.len()));
        }
        for (e, p) in all.iter().enumerate() {
            let d = p.data();
            if d.len() != tt {
                return Err(format!("{}: ESI {} payload has {} bytes", ctx, ids[e], d.len()));
            }
            for j in 0..tt {
                let want = pc[sweep_idx(j)][e][0];
                if d[j] != want {
                    return Err(format!("{}: ESI {}: byte {} of the T-byte packet is {:#04x}, encoding that byte column alone gives {:#04x}", ctx, ids[e], j, d[j], want));
                }
            }
        }
        let mut dec = raptorq::SourceBlockDecoder::new(0, &block_cfg(k, t), data.len() as u64);
        let erased = [0u32, k / 2];
        let feed: Vec<EncodingPacket> = all.iter().filter(|p| !erased.contains(&p.payload_id().encoding_symbol_id())).cloned().collect();
        match dec.decode(feed) {
            Some(d) if d == data => {}
            Some(_) => return Err(format!("{}: decoding with symbols {:?} erased returns wrong data", ctx, erased)),
            None => return Err(format!("{}: decoding with symbols {:?} erased and 12 repair symbols fails (it succeeds for T=1)", ctx, erased)),
        }
        Ok(tt as u64 * ids.len() as u64)
    });
    match r {
        Ok(x) => x,
        Err(p) => Err(format!("{}: panic {}", ctx, p)),
    }
}

fn sweep_reference(k: u32, plan: &SourceBlockEncodingPlan, structured: bool) -> Vec<Vec<Vec<u8>>> {
    let cols = if structured { structured_columns(k) } else { sweep_patterns(k) };
    cols.iter().map(|c| payloads(&build(k, 1, c, 1, plan), k)).collect()
}

pub fn sweep_ts(quick: bool) -> Vec<u16> {
    let dense_to: u16 = if quick { 16600 } else { 65535 };
    let mut v: Vec<u16> = (161..=dense_to).collect();
    if quick {
        for p in [4096u32, 8192, 16384, 32768, 49152, 65536] {
            for d in [-2i64, -1, 0, 1, 2, 100] {
                let t = p as i64 + d;
                if t > dense_to as i64 && t <= 65535 {
                    v.push(t as u16);
                }
            }
        }
        v.extend_from_slice(&[3000, 5000, 10000, 20000, 40000, 60000, 65534, 65535]);
        v.sort_unstable();
        v.dedup();
    }
    v
}

pub fn replay(case: &Value) -> Result<(), String> {
    if let Some(r) = replay_delegate("C09", case) {
        return r;
    }
    let kind = kind_from(case["kernel"].as_str().unwrap_or("auto"));
    if kind != vk::AUTO && !vk::supported(kind) {
        return Err("kernel not supported on this host".into());
    }
    vk::force(kind);
    if case["sweep"].as_bool().unwrap_or(false) {
        let k = case["K"].as_u64().unwrap() as u32;
        let plan = SourceBlockEncodingPlan::generate(k as u16);
        let structured = case["structured"].as_bool().unwrap_or(false);
        let pc = sweep_reference(k, &plan, structured);
        let r = check_sweep(k, case["T"].as_u64().unwrap() as u16, case["mode"].as_u64().unwrap_or(0) as u8, &plan, &pc, structured);
        vk::force(vk::AUTO);
        return r.map(|_| ());
    }
    let r = check_kt(case["K"].as_u64().unwrap() as u32, case["T"].as_u64().unwrap() as u16, case["all_scalars"].as_bool().unwrap_or(false), case["mode"].as_u64().unwrap_or(0) as u8);
    vk::force(vk::AUTO);
    r.map(|_| ())
}

pub fn t_alphabet(quick: bool) -> Vec<u16> {
    let mut v: Vec<u16> = (1..=if quick { 160 } else { 192 }).collect();
    v.extend_from_slice(&[255, 256, 257, 1023, 1024, 1280]);
    if !quick {
        v.push(65535);
    }
    v
}

pub fn run(ctx: &Ctx) -> i32 {
    let st = Stats::new();
    let ks: Vec<u32> = if ctx.quick() { vec![10, 26, 101] } else { vec![1, 10, 11, 26, 101, 257] };
    let ts = t_alphabet(ctx.quick());
    let kinds: Vec<u8> = [vk::AUTO, vk::AVX512, vk::AVX2, vk::SSSE3, vk::FALLBACK].into_iter().filter(|&k| k == vk::AUTO || vk::supported(k)).collect();
    for &kind in &kinds {
        vk::force(kind);
        let mut work: Vec<(u32, u16, bool, u8)> = vec![];
        for &k in &ks {
            for (ti, &t) in ts.iter().enumerate() {
                if t == 65535 && (k > 26 || kind == vk::AVX512) {
                    continue;
                }
                // three ways of building the encoder, rotated over the T axis (all three for T <= 70)
                let modes: Vec<u8> = if t <= 70 && kind == vk::AUTO { vec![0, 1, 2] } else { vec![(ti % 3) as u8] };
                for m in modes {
                    let all_scalars = t <= 70 || [127, 128, 129, 191, 192, 255, 256, 257].contains(&t);
                    work.push((k, t, all_scalars && (ctx.thorough() || k == 10), m));
                }
            }
        }
        work.sort_by_key(|w| std::cmp::Reverse(w.0 as u64 * w.1 as u64 * if w.2 { 10 } else { 1 }));
        par_for(work.len(), |i| {
            let (k, t, alls, m) = work[i];
            match check_kt(k, t, alls, m) {
                Ok(n) => {
                    st.eval(n);
                    st.nontriv(1);
                    st.count(&format!("kt_points_{}", kind_name(kind)), 1);
                    st.count("relations_checked", n);
                }
                Err(msg) => st.violation(format!("{}:{}:{}:{}", kind_name(kind), k, t, m), format!("[kernel {}] {}", kind_name(kind), msg), json!({"kernel":kind_name(kind),"K":k,"T":t,"all_scalars":alls,"mode":m})),
            }
        });
        // (v) T sweep
        let sweep_kinds_all = ctx.thorough();
        if kind == vk::AUTO || kind == vk::FALLBACK || sweep_kinds_all {
            for &k in &(if ctx.quick() { vec![10u32] } else { vec![10u32, 26] }) {
                let plan = SourceBlockEncodingPlan::generate(k as u16);
                let pc = sweep_reference(k, &plan, false);
                let pcs = sweep_reference(k, &plan, true);
                let mut tsw: Vec<u16> = (1..=160).collect();
                tsw.extend(sweep_ts(ctx.quick()));
                if kind != vk::AUTO || k != 10 {
                    tsw.retain(|&t| t <= if ctx.quick() { 700 } else { 8300 } || t % 1021 == 0 || t >= 65530);
                }
                tsw.reverse();
                par_for(tsw.len(), |i| {
                    let t = tsw[i];
                    let m = (t % 3) as u8;
                    for structured in [false, true] {
                        if structured && !(t % 8 == 0 || t <= 400) {
                            continue;
                        }
                        if !structured && t <= 160 {
                            continue; // covered by the main grid
                        }
                        match check_sweep(k, t, m, &plan, if structured { &pcs } else { &pc }, structured) {
                            Ok(n) => {
                                st.eval(n);
                                st.nontriv(1);
                                st.count(&format!("sweep_points_{}", kind_name(kind)), 1);
                                if structured { st.count("sweep_points_structured_symbols", 1); }
                                st.count("sweep_bytes_checked", n);
                            }
                            Err(msg) => st.violation(format!("sweep:{}:{}:{}:{}:{}", kind_name(kind), k, t, m, structured), format!("[kernel {}] {}", kind_name(kind), msg), json!({"kernel":kind_name(kind),"K":k,"T":t,"mode":m,"sweep":true,"structured":structured})),
                        }
                    }
                });
            }
        }
        st.outcome(kind_name(kind));
    }
    vk::force(vk::AUTO);
    st.set_counter("kernel_families", kinds.len() as u64);
    st.sample(json!({"kernel":"avx2","K":26,"T":67,"mode":"plan","relations":["byte j of each of the 38 packets = 1-byte packet of column j, j=0..66, data pos and lcg","Enc(A^B)=Enc(A)^Enc(B) for 6 pairs","Enc(c*A)=c*Enc(A) for all 256 c","decode with symbols {0,13} erased"]}));
    finish(ctx, &st, Finish {
        level: "exploration",
        rule: format!("grid: kernel family in {:?} (forced through the public dispatchers) x K in {:?} x every T in 1..={} and {{255,256,257,1023,1024,1280{}}} x encoder built via cache / explicit plan / unplanned; ESIs: all source, 8 near repair, 4 far repair. For every point: (i) byte j of every packet equals the 1-byte packet obtained by encoding byte column j alone, for every j (data pos and lcg), (ii) additivity for all pairs of {{pos,lcg,unit0,ff}}, (iii) homogeneity for all 256 scalars (T<=70 and T around 128/192/256; 6 scalars elsewhere) with reference GF multiplication, (iv) decoding with two source symbols erased returns the data. (v) T sweep (kernel auto and portable{}): K=10{} x every T in 161..={} plus powers of two +-{{0,1,2,100}} up to 65535, one encode per T of a block whose byte columns carry 7 fixed patterns in an aperiodic arrangement: every byte of every packet must equal the 1-byte packet of its column's pattern, and decoding with two erasures returns the data; the same with structured symbols (each symbol one 8-byte word repeated: zero, constant and periodic symbols) for every T<=400 and every multiple of 8. distinct_nontrivial = (kernel,K,T,mode) points.", kinds.iter().map(|&k| kind_name(k)).collect::<Vec<_>>(), ks, if ctx.quick() { 160 } else { 192 }, if ctx.quick() { "" } else { ",65535" }, if ctx.quick() { "" } else { "; all forced kernels on a reduced T set" }, if ctx.quick() { "" } else { " and 26" }, if ctx.quick() { 16600 } else { 65535 }),
        exhaustive: false,
        assumptions: vec!["T outside the alphabet (193..65534 except the listed ones) is not enumerated".into(), "NEON cannot execute on this host".into()],
        extra: Map::new(),
        must_be_nonzero: vec!["kt_points_auto", "kt_points_avx2", "kt_points_ssse3", "kt_points_portable", "relations_checked", "sweep_points_auto", "sweep_points_portable", "sweep_points_structured_symbols"],
    }, replay)
}
