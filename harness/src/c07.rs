//! C07 — results depend only on the inputs, not on build, CPU, back-end or caching.
//! Differential oracle over the whole configuration lattice that exists on this host:
//! {release, debug-assertions+overflow-checks} x {std, no_std} x kernel family x sparse threshold x plan mode.
use crate::c02::make_universe;
use crate::codec::*;
use crate::common::*;
use crate::digest;
use serde_json::{json, Map, Value};
use std::collections::BTreeMap;

/// two special erasure patterns for K=10 found with the reference rank oracle:
/// one rank-deficient set of exactly K symbols, one set where the GF(2)-only fast path must fall back
pub fn specials() -> Vec<(u32, Vec<u32>)> {
    let k = 10u32;
    let esis: Vec<u32> = (0..k + 14).chain(far_esis(k)).collect();
    let u = make_universe(k, esis.clone(), 250, usize::MAX);
    let n = esis.len();
    let mut out = vec![];
    // (a) first rank-deficient 10-subset without source symbols 0 and 1
    let mut found = None;
    for_each_combination(n - 2, k as usize, |c| {
        if found.is_some() {
            return;
        }
        let mut e = u.base_full.clone();
        for &i in c {
            e.insert(u.rows[i + 2].clone());
        }
        if !e.full() {
            found = Some(c.iter().map(|&i| esis[i + 2]).collect::<Vec<u32>>());
        }
    });
    out.push((k, found.expect("a rank-deficient 10-subset exists in this universe")));
    // (b) source symbol 0 erased, 11+ repair symbols: GF(2)-only system singular, full system regular
    let mut found = None;
    for_each_combination(18, 12, |c| {
        if found.is_some() {
            return;
        }
        let mut full = u.base_full.clone();
        let mut g2 = u.base_gf2.clone();
        for i in 1..k as usize {
            full.insert(u.rows[i].clone());
            g2.insert(u.rows[i].clone());
        }
        for &i in c {
            full.insert(u.rows[k as usize + i].clone());
            g2.insert(u.rows[k as usize + i].clone());
        }
        if full.full() && !g2.full() {
            let mut v: Vec<u32> = (1..k).collect();
            v.extend(c.iter().map(|&i| esis[k as usize + i]));
            found = Some(v);
        }
    });
    out.push((k, found.expect("a fast-path fall-back set exists")));
    out
}

fn special_arg(sp: &[(u32, Vec<u32>)]) -> String {
    sp.iter().map(|(k, v)| format!("{}:{}", k, v.iter().map(|e| e.to_string()).collect::<Vec<_>>().join(","))).collect::<Vec<_>>().join(";")
}

fn items_for(ctx: &Ctx, heavy_build: bool) -> Vec<(u32, u16, &'static str)> {
    let ks: Vec<u32> = if heavy_build {
        // debug-assertions build: the solver's self-verification is cubic
        if ctx.quick() { vec![1, 10, 11, 26, 101, 249, 257] } else { mid_ladder().into_iter().filter(|&k| k <= 500).chain([1000]).collect() }
    } else if ctx.quick() {
        vec![1, 2, 10, 11, 12, 26, 49, 101, 248, 249, 257, 500, 1050]
    } else {
        mid_ladder()
    };
    let mut v = vec![];
    // every block size of a contiguous range (one symbol size, one data pattern): differences between builds or
    // back-ends that only exist for some K (a loop bound, a word boundary in the matrix width) have nowhere to hide
    let dense_to: u32 = match (heavy_build, ctx.quick()) {
        (false, true) => 170,
        (true, true) => 110,
        (false, false) => 700,
        (true, false) => 330,
    };
    for k in 1..=dense_to {
        if !ks.contains(&k) {
            v.push((k, 7u16, "pos"));
        }
    }
    for &k in &ks {
        for &t in &[1u16, 7, 64, 65] {
            for d in ["pos", "lcg"] {
                if heavy_build && (d == "lcg" || (k > 101 && t != 7)) {
                    continue;
                }
                if ctx.quick() && k > 300 && d == "lcg" {
                    continue;
                }
                v.push((k, t, d));
            }
        }
    }
    v
}

fn items_arg(items: &[(u32, u16, &'static str)]) -> String {
    items.iter().map(|(k, t, d)| format!("{}:{}:{}", k, t, d)).collect::<Vec<_>>().join(",")
}

fn run_binary(env_name: &str, extra_first: &[&str], items: &[(u32, u16, &'static str)], special: &str, all_kernels: bool) -> Vec<String> {
    run_binary_with(env_name, extra_first, items, special, all_kernels, &[])
}

fn run_binary_with(env_name: &str, extra_first: &[&str], items: &[(u32, u16, &'static str)], special: &str, all_kernels: bool, more: &[&str]) -> Vec<String> {
    let bin = std::env::var(env_name).unwrap_or_else(|_| machinery_failure(&format!("{} not set (run through ./check)", env_name)));
    let mut cmd = crate::common::child_command(&bin);
    cmd.args(extra_first);
    cmd.arg("--items").arg(items_arg(items)).arg("--special").arg(special);
    if all_kernels {
        cmd.arg("--all-kernels");
    }
    cmd.args(more);
    let out = cmd.output().unwrap_or_else(|e| machinery_failure(&format!("cannot run {}: {}", bin, e)));
    let so = String::from_utf8_lossy(&out.stdout).to_string();
    if !out.status.success() || !so.lines().any(|l| l.starts_with("DIGEST-DONE")) {
        // a crash of a configuration on valid inputs is itself a disagreement with the configurations that answer
        let se = String::from_utf8_lossy(&out.stderr).to_string();
        return vec![format!("CRASH {} {}", env_name, se.lines().rev().take(6).collect::<Vec<_>>().join(" | "))];
    }
    so.lines().filter(|l| l.starts_with("D ")).map(|l| l.to_string()).collect()
}

fn collect(ctx: &Ctx, items_light: &[(u32, u16, &'static str)], items_heavy: &[(u32, u16, &'static str)], special: &str) -> Vec<String> {
    let mut lines: Vec<String> = vec![];
    let all_k = true;
    // the four binaries run concurrently
    std::thread::scope(|s| {
        let h1 = s.spawn(|| run_binary("RQ_BIN_RELEASE", &["C07", "--child"], items_light, special, all_k));
        let h2 = s.spawn(|| run_binary("RQ_BIN_CHECKED", &["C07", "--child"], items_heavy, special, ctx.thorough()));
        let h3 = s.spawn(|| run_binary("RQ_BIN_NOSTD", &[], items_light, special, false));
        let h4 = s.spawn(|| run_binary("RQ_BIN_NOSTD_CHECKED", &[], items_heavy, special, false));
        // the same workload once more on ONE thread in reverse item order, and once more on one thread in ascending
        // order: what the library was asked before (per thread or per process) must not matter
        let rev: Vec<(u32, u16, &'static str)> = { let mut v = items_light.to_vec(); v.sort(); v.reverse(); v };
        let asc: Vec<(u32, u16, &'static str)> = { let mut v = items_light.to_vec(); v.sort(); v };
        let h5 = s.spawn(move || run_binary_with("RQ_BIN_RELEASE", &["C07", "--child"], &rev, special, false, &["--single-thread", "--tag-suffix", "+descending-on-one-thread"]));
        let h6 = s.spawn(move || run_binary_with("RQ_BIN_RELEASE", &["C07", "--child"], &asc, special, false, &["--single-thread", "--tag-suffix", "+ascending-on-one-thread"]));
        for h in [h1, h2, h3, h4, h5, h6] {
            lines.extend(h.join().unwrap());
        }
    });
    lines
}

/// group digests by item; returns (what -> config -> digest)
fn group(lines: &[String]) -> BTreeMap<String, BTreeMap<String, String>> {
    let mut m: BTreeMap<String, BTreeMap<String, String>> = BTreeMap::new();
    for l in lines {
        let p: Vec<&str> = l.split_whitespace().collect();
        if p.len() == 4 && p[0] == "D" {
            m.entry(p[2].to_string()).or_default().insert(p[1].to_string(), p[3].to_string());
        }
    }
    m
}

pub fn replay(case: &Value) -> Result<(), String> {
    let what = case["what"].as_str().unwrap().to_string();
    let it = case["item"].as_str().unwrap();
    let p: Vec<&str> = it.split(':').collect();
    let item = vec![(p[0][1..].parse::<u32>().unwrap(), p[1][1..].parse::<u16>().unwrap(), if p[2] == "pos" { "pos" } else { "lcg" })];
    let special = case["special"].as_str().unwrap_or("").to_string();
    // only the two disagreeing configurations are re-run ("<profile>/<std|no_std>/<kernel>/...")
    let cfgs: Vec<String> = case["configs"].as_array().map(|a| a.iter().map(|x| x.as_str().unwrap_or("").to_string()).collect()).unwrap_or_default();
    if what == "crash" || cfgs.len() < 2 {
        // a crashed configuration: re-run that binary on the light item list's first item
        let env_name = case["env"].as_str().unwrap_or("RQ_BIN_RELEASE");
        let first: &[&str] = if env_name.contains("NOSTD") { &[] } else { &["C07", "--child"] };
        let items = case["items"].as_str().map(crate::digest::parse_items).unwrap_or_default();
        let items: Vec<(u32, u16, &'static str)> = items.iter().map(|i| (i.k, i.t, i.data)).collect();
        let lines = run_binary(env_name, first, if items.is_empty() { &item } else { &items }, &special, true);
        return match lines.iter().find(|l| l.starts_with("CRASH")) {
            Some(c) => Err(c.split('|').next().unwrap_or(c).to_string()),
            None => Ok(()),
        };
    }
    let mut lines = vec![];
    let mut done: Vec<String> = vec![];
    for c in &cfgs {
        let parts: Vec<&str> = c.split('/').collect();
        let (env_name, first): (&str, &[&str]) = match (parts[0], parts[1]) {
            ("release", x) if x.starts_with("std") => ("RQ_BIN_RELEASE", &["C07", "--child"]),
            ("checked", x) if x.starts_with("std") => ("RQ_BIN_CHECKED", &["C07", "--child"]),
            ("release", _) => ("RQ_BIN_NOSTD", &[]),
            _ => ("RQ_BIN_NOSTD_CHECKED", &[]),
        };
        let key = format!("{}:{}", env_name, parts[2]);
        if done.contains(&key) {
            continue;
        }
        done.push(key);
        let bin = std::env::var(env_name).map_err(|_| format!("{} not set", env_name))?;
        let mut cmd = crate::common::child_command(&bin);
        cmd.args(first).arg("--items").arg(items_arg(&item)).arg("--special").arg(&special).arg("--only-kernels").arg(parts[2]);
        if let Some(pos) = parts[1].find('+') {
            cmd.arg("--single-thread").arg("--tag-suffix").arg(&parts[1][pos..]);
        }
        let out = cmd.output().map_err(|e| e.to_string())?;
        let so = String::from_utf8_lossy(&out.stdout).to_string();
        if !so.lines().any(|l| l.starts_with("DIGEST-DONE")) {
            return Err(format!("configuration {} crashed on {}", c, it));
        }
        lines.extend(so.lines().filter(|l| l.starts_with("D ")).map(|l| l.to_string()));
    }
    let g = group(&lines);
    let all = g.get(&what).ok_or("item not produced")?;
    let a = all.get(&cfgs[0]).ok_or("first configuration not produced")?;
    let b = all.get(&cfgs[1]).ok_or("second configuration not produced")?;
    if a != b {
        return Err(format!("{}: {} gives {}, {} gives {}", what, cfgs[0], a, cfgs[1], b));
    }
    Ok(())
}

pub fn run(ctx: &Ctx) -> i32 {
    if ctx.flag("--child") {
        // std builds: this binary is its own digest child
        let tag = if is_checked_build() { "checked/std" } else { "release/std" };
        // restore the default (loud) panic hook: a panic must terminate the child with a message
        let pos = ctx.args.iter().position(|a| a == "--child").unwrap();
        digest::child_main(tag, &ctx.args[pos + 1..]);
        return 0;
    }
    let st = Stats::new();
    let sp = specials();
    let special = special_arg(&sp);
    let light = items_for(ctx, false);
    let heavy = items_for(ctx, true);
    let lines = collect(ctx, &light, &heavy, &special);
    for c in lines.iter().filter(|l| l.starts_with("CRASH")) {
        let env_name = c.split_whitespace().nth(1).unwrap_or("?");
        let its = if env_name.contains("CHECKED") { items_arg(&heavy) } else { items_arg(&light) };
        st.violation(format!("crash:{}", env_name), format!("a build configuration crashed on the workload: {}", c), json!({"what":"crash","item":"K10:T7:pos","special":special,"env":env_name,"items":its}));
    }
    let mut diffs = 0;
    let g = group(&lines);
    let mut configs: std::collections::BTreeSet<String> = Default::default();
    let mut none_items = 0u64;
    for (what, cfgs) in &g {
        st.eval(cfgs.len() as u64);
        for c in cfgs.keys() {
            configs.insert(c.clone());
        }
        let mut distinct: BTreeMap<&String, Vec<&String>> = BTreeMap::new();
        for (c, d) in cfgs {
            distinct.entry(d).or_default().push(c);
        }
        if distinct.keys().any(|d| d.as_str() == "None") {
            none_items += 1;
        }
        if cfgs.len() >= 2 {
            st.nontriv(1);
        }
        if distinct.len() > 1 {
            let desc: Vec<String> = distinct.iter().map(|(d, c)| format!("{} <- {} configurations e.g. {}", d, c.len(), c[0])).collect();
            // item key is the part after enc:/dec: up to the data pattern
            let parts: Vec<&str> = what.split(':').collect();
            let item = format!("{}:{}:{}", parts[1], parts[2], parts[3]);
            diffs += 1;
            if diffs > 4 {
                st.violation_count.fetch_add(1, std::sync::atomic::Ordering::Relaxed);
                continue;
            }
            // representatives of the two largest classes
            let mut classes: Vec<&Vec<&String>> = distinct.values().collect();
            classes.sort_by_key(|c| std::cmp::Reverse(c.len()));
            let reps = vec![classes[0][0].clone(), classes[1][0].clone()];
            st.violation(format!("diff:{}", what), format!("{}: identical inputs give {} different results: {:?}", what, distinct.len(), desc), json!({"what":what,"item":item,"special":special,"configs":reps}));
        }
    }
    st.set_counter("configurations", configs.len() as u64);
    st.set_counter("workload_items", g.len() as u64);
    st.set_counter("digest_lines", lines.len() as u64);
    st.set_counter("items_with_outcome_none", none_items);
    for b in ["release/std", "checked/std", "release/no_std", "checked/no_std"] {
        st.set_counter(&format!("configurations_{}", b), configs.iter().filter(|c| c.starts_with(b)).count() as u64);
    }
    for k in ["avx512", "avx2", "ssse3", "portable"] {
        st.set_counter(&format!("configurations_kernel_{}", k), configs.iter().filter(|c| c.contains(&format!("/{}/", k))).count() as u64);
    }
    st.outcome("Some");
    if none_items > 0 {
        st.outcome("None");
    }
    st.sample(json!({"configurations_example": configs.iter().take(6).collect::<Vec<_>>(), "special_patterns_K10": sp.iter().map(|x| x.1.clone()).collect::<Vec<_>>()}));
    if let Some((what, cfgs)) = g.iter().find(|(w, _)| w.starts_with("dec:K10:T7:pos:special0")) {
        st.sample(json!({"item": what, "digest_by_configuration_count": cfgs.len(), "digest": cfgs.values().next()}));
    }
    if let Some((what, cfgs)) = g.iter().find(|(w, _)| w.starts_with("enc:K257:T64:pos")) {
        st.sample(json!({"item": what, "digest_by_configuration_count": cfgs.len(), "digest": cfgs.values().next()}));
    }
    finish(ctx, &st, Finish {
        level: "exploration",
        rule: format!("configuration lattice: builds {{release, debug-assertions+overflow-checks}} x {{std, no_std}} (four binaries) x kernel family forced through the dispatchers {{auto(AVX-512), avx512, avx2, ssse3, portable}} (std; no_std is portable by construction) x sparse threshold {{0, 250, infinity}} x plan mode {{new cold, new warm (global cache), explicit plan (hooked threshold and public generate), unplanned}}, plus the release/std workload on one thread in ascending and in descending item order (call history must not matter); workload: {} items (K ladder x T in {{1,7,64,65}} x data {{pos,lcg}}, plus EVERY K of a contiguous range at T=7 (release 1..=170 quick / 700 thorough; debug-assertions 1..=110 / 330); {} items in the cubic debug-assertions builds): digest (two independent 64-bit hashes) of all source + 16 near + 4 far repair packets, and for each of 5-7 erasure patterns (incl. one rank-deficient set and one set that forces the GF(2) fast path to fall back, both found with the reference rank oracle) the decode outcome and bytes under all three decoder thresholds. Oracle: for every item all configurations give the identical digest. distinct_nontrivial = items compared across >= 2 configurations.", light.len(), heavy.len()),
        exhaustive: false,
        assumptions: vec!["NEON/aarch64, 32-bit x86, big-endian targets and other compiler versions cannot be executed here".into(), "the debug-assertions builds run a reduced workload (cubic self-checks)".into()],
        extra: Map::new(),
        must_be_nonzero: vec!["configurations_release/std", "configurations_checked/std", "configurations_release/no_std", "configurations_checked/no_std", "configurations_kernel_avx2", "configurations_kernel_ssse3", "configurations_kernel_portable", "workload_items", "items_with_outcome_none"],
    }, replay)
}
