//! C10 — octet arithmetic is GF(256) of RFC 6330 5.7. Shape D: the whole finite domain.
use crate::common::*;
use crate::rfcref::gf;
use raptorq::verif::{verif_oct_exp, verif_oct_log, Octet, OCTET_MUL, OCTET_MUL_HI_BITS, OCTET_MUL_LOW_BITS};
use serde_json::{json, Map, Value};

fn mul_impl(a: u8, b: u8) -> u8 {
    (Octet::new(a) * Octet::new(b)).byte()
}

/// check one named fact about a pair/triple; Err(msg) on disagreement. Used by enumeration and replay.
fn check_case(kind: &str, a: u8, b: u8, c: u8) -> Result<(), String> {
    match kind {
        "mul" => {
            let got = guarded(|| mul_impl(a, b)).map_err(|p| format!("panic {}", p))?;
            let want = gf::mul_slow(a, b);
            if got != want { return Err(format!("{}*{} = {} (impl) vs {} (polynomial)", a, b, got, want)); }
            let got2 = guarded(|| (&Octet::new(a) * &Octet::new(b)).byte()).map_err(|p| format!("panic {}", p))?;
            if got2 != want { return Err(format!("&{}*&{} = {} vs {}", a, b, got2, want)); }
        }
        "div" => {
            if b == 0 {
                // division by zero must be refused, not answered
                if guarded(|| (Octet::new(a) / Octet::new(b)).byte()).is_ok() { return Err(format!("{}/0 returned a value", a)); }
            } else {
                let got = guarded(|| (Octet::new(a) / Octet::new(b)).byte()).map_err(|p| format!("panic {}", p))?;
                let want = gf::mul_slow(a, gf::inv(b));
                if got != want { return Err(format!("{}/{} = {} vs {}", a, b, got, want)); }
                if gf::mul_slow(got, b) != a { return Err(format!("({}/{})*{} != {}", a, b, b, a)); }
            }
        }
        "add" => {
            let got = (Octet::new(a) + Octet::new(b)).byte();
            let got_ref = (&Octet::new(a) + &Octet::new(b)).byte();
            let got_sub = (Octet::new(a) - Octet::new(b)).byte();
            let mut x = Octet::new(a); x += Octet::new(b);
            let mut y = Octet::new(a); y += &Octet::new(b);
            for g in [got, got_ref, got_sub, x.byte(), y.byte()] {
                if g != a ^ b { return Err(format!("{}+{} = {} vs {}", a, b, g, a ^ b)); }
            }
        }
        "fma" => {
            let mut x = Octet::new(a);
            guarded(|| x.fma(&Octet::new(b), &Octet::new(c))).map_err(|p| format!("panic {}", p))?;
            let want = a ^ gf::mul_slow(b, c);
            if x.byte() != want { return Err(format!("{} fma ({},{}) = {} vs {}", a, b, c, x.byte(), want)); }
        }
        "assoc" => {
            let l = mul_impl(mul_impl(a, b), c);
            let r = mul_impl(a, mul_impl(b, c));
            if l != r { return Err(format!("({}*{})*{} = {} but {}*({}*{}) = {}", a, b, c, l, a, b, c, r)); }
        }
        "distrib" => {
            let l = mul_impl(a, b ^ c);
            let r = mul_impl(a, b) ^ mul_impl(a, c);
            if l != r { return Err(format!("{}*({}+{}) = {} vs {}", a, b, c, l, r)); }
        }
        "table_mul" => {
            let got = OCTET_MUL[a as usize][b as usize];
            if got != gf::mul_slow(a, b) { return Err(format!("OCTET_MUL[{}][{}] = {} vs {}", a, b, got, gf::mul_slow(a, b))); }
        }
        "nibble" => {
            // c selects the lane half (0: lanes 0..15, 1: lanes 16..31)
            let off = if c == 0 { 0 } else { 16 };
            let lo = OCTET_MUL_LOW_BITS[a as usize][(b & 0x0F) as usize + off];
            let hi = OCTET_MUL_HI_BITS[a as usize][(b >> 4) as usize + off];
            if lo ^ hi != gf::mul_slow(a, b) { return Err(format!("LOW[{}][{}]^HI[{}][{}] (lane offset {}) = {} vs {}", a, b & 15, a, b >> 4, off, lo ^ hi, gf::mul_slow(a, b))); }
            if lo != gf::mul_slow(a, b & 0x0F) { return Err(format!("LOW[{}][{}+{}] = {} vs {}", a, b & 15, off, lo, gf::mul_slow(a, b & 15))); }
            if hi != gf::mul_slow(a, b & 0xF0) { return Err(format!("HI[{}][{}+{}] = {} vs {}", a, b >> 4, off, hi, gf::mul_slow(a, b & 0xF0))); }
        }
        "alpha" => {
            let got = guarded(|| Octet::alpha(a as usize).byte()).map_err(|p| format!("panic {}", p))?;
            if got != gf::alpha_pow(a as u64) { return Err(format!("alpha({}) = {} vs {}", a, got, gf::alpha_pow(a as u64))); }
        }
        "exp" => {
            // index = a + 256*b (0..510)
            let i = a as usize + 256 * b as usize;
            let e = verif_oct_exp();
            if e[i] != gf::alpha_pow(i as u64) { return Err(format!("OCT_EXP[{}] = {} vs {}", i, e[i], gf::alpha_pow(i as u64))); }
            if i + 255 < 510 && e[i + 255] != e[i] { return Err(format!("OCT_EXP[{}+255] != OCT_EXP[{}]", i, i)); }
        }
        "log" => {
            let l = verif_oct_log();
            if a != 0 && gf::alpha_pow(l[a as usize] as u64) != a { return Err(format!("alpha^OCT_LOG[{}] = {} != {}", a, gf::alpha_pow(l[a as usize] as u64), a)); }
            if a != 0 && l[a as usize] == 255 { return Err(format!("OCT_LOG[{}] = 255 is not canonical (breaks the index bound 508)", a)); }
        }
        "index" => {
            // unchecked table indices stay in range (feeds C12)
            let l = verif_oct_log();
            if a != 0 && b != 0 {
                let s = l[a as usize] as usize + l[b as usize] as usize;
                if s > 508 { return Err(format!("log {} + log {} = {} > 508", a, b, s)); }
                let d = 255 + l[a as usize] as usize - l[b as usize] as usize;
                if !(1..=509).contains(&d) { return Err(format!("255 + log {} - log {} = {} out of 1..=509", a, b, d)); }
            }
        }
        _ => return Err(format!("unknown kind {}", kind)),
    }
    Ok(())
}

pub fn replay(case: &Value) -> Result<(), String> {
    check_case(case["kind"].as_str().unwrap_or(""), case["a"].as_u64().unwrap_or(0) as u8, case["b"].as_u64().unwrap_or(0) as u8, case["c"].as_u64().unwrap_or(0) as u8)
}

pub fn run(ctx: &Ctx) -> i32 {
    let st = Stats::new();
    let report = |kind: &str, a: u8, b: u8, c: u8, m: String| {
        st.violation(format!("{}:{}:{}:{}", kind, a, b, c), m, json!({"kind": kind, "a": a, "b": b, "c": c}));
    };
    // pairs
    par_for(256, |a| {
        let a = a as u8;
        for b in 0..=255u8 {
            for kind in ["mul", "div", "add", "table_mul", "index"] {
                st.eval(1);
                if let Err(m) = check_case(kind, a, b, 0) { report(kind, a, b, 0, m); }
            }
            for half in 0..2u8 {
                st.eval(1);
                if let Err(m) = check_case("nibble", a, b, half) { report("nibble", a, b, half, m); }
            }
            if a != 0 && b != 0 { st.nontriv(1); }
        }
        // triples
        for b in 0..=255u8 {
            for c in 0..=255u8 {
                for kind in ["assoc", "distrib", "fma"] {
                    if let Err(m) = check_case(kind, a, b, c) { report(kind, a, b, c, m); }
                }
            }
            st.eval(3 * 256);
        }
    });
    st.count("pairs", 65536);
    st.count("triples", 1 << 24);
    for a in 0..=255u8 {
        st.eval(2);
        if let Err(m) = check_case("alpha", a, 0, 0) { report("alpha", a, 0, 0, m); }
        if let Err(m) = check_case("log", a, 0, 0) { report("log", a, 0, 0, m); }
    }
    for i in 0..510usize {
        st.eval(1);
        if let Err(m) = check_case("exp", (i % 256) as u8, (i / 256) as u8, 0) { report("exp", (i % 256) as u8, (i / 256) as u8, 0, m); }
    }
    // alpha(256..) must be refused
    st.eval(1);
    if guarded(|| Octet::alpha(256)).is_ok() { st.violation("alpha:256".into(), "alpha(256) returned a value".into(), json!({"kind":"alpha256"})); }
    st.sample(json!({"kind": "mul", "a": 2, "b": 128, "impl": mul_impl(2, 128), "reference": gf::mul_slow(2, 128)}));
    st.sample(json!({"kind": "div", "a": 1, "b": 2, "impl": (Octet::new(1) / Octet::new(2)).byte(), "reference": gf::inv(2)}));
    st.sample(json!({"kind": "assoc", "a": 7, "b": 91, "c": 200, "value": mul_impl(mul_impl(7, 91), 200)}));
    finish(ctx, &st, Finish {
        level: "exploration",
        rule: "complete enumeration: 256^2 operand pairs x {mul (2 forms), div, add/sub (5 forms), OCTET_MUL entry, unchecked-index bounds, nibble tables in both 16-lane halves}; 256^3 triples x {associativity, distributivity, fma}; alpha(0..255); OCT_LOG[0..255]; OCT_EXP[0..509]. Oracle: carry-less shift-and-xor multiplication modulo 0x11D. Non-trivial pair = both operands non-zero (table path taken).".into(),
        exhaustive: true,
        assumptions: vec!["field polynomial x^8+x^4+x^3+x^2+1 and generator alpha=2 as recalled from RFC 6330 5.7 (the reference checks that alpha generates the 255 non-zero elements)".into()],
        extra: Map::new(),
        must_be_nonzero: vec!["pairs", "triples"],
    }, replay)
}
