//! C06 — every block size is encodable; intermediate symbols satisfy all constraints.
//! Shape D: {477 K'} x {K = K', K = minpad} x {dense, sparse} x {direct solve, plan replay}.
use crate::codec::*;
use crate::common::*;
use crate::rfcref;
use crate::tables::TABLE2;
use raptorq::{SourceBlockEncoder, SourceBlockEncodingPlan};
use serde_json::{json, Map, Value};

const DENSE: u32 = u32::MAX;
const SPARSE: u32 = 0;

fn variant(k: u32, t: u16, data: &[u8], threshold: u32, plan: bool) -> Result<Vec<Vec<u8>>, String> {
    let cfg = block_cfg(k, t);
    guarded(|| {
        let enc = if plan {
            let p = SourceBlockEncodingPlan::verif_generate(k as u16, threshold);
            SourceBlockEncoder::with_encoding_plan(0, &cfg, data, &p)
        } else {
            SourceBlockEncoder::verif_new_unplanned(0, &cfg, data, threshold)
        };
        enc.verif_intermediate_symbols()
    })
    .map_err(|e| format!("K={} ({}, {}): building the encoder panicked: {}", k, if threshold == DENSE { "dense" } else { "sparse" }, if plan { "plan replay" } else { "direct solve" }, e))
}

/// one block size: all requested variants must succeed, satisfy every relation and be identical
fn check_size(k: u32, dense: bool, pattern: &str) -> Result<u64, String> {
    let t = 2u16;
    let data = data_named(pattern, k as usize * t as usize, 6);
    let src = split_symbols(&data, t as usize);
    let mut first: Option<Vec<Vec<u8>>> = None;
    let mut n = 0;
    let mut backends = vec![SPARSE];
    if dense {
        backends.push(DENSE);
    }
    for &th in &backends {
        for plan in [false, true] {
            let c = variant(k, t, &data, th, plan)?;
            n += 1;
            match &first {
                None => {
                    rfcref::check_intermediate(k, &src, &c).map_err(|e| format!("K={} data={}: {}", k, pattern, e))?;
                    first = Some(c);
                }
                Some(f) => {
                    if &c != f {
                        return Err(format!("K={} data={}: intermediate symbols of variant ({}, {}) differ from (sparse, direct)", k, pattern, if th == DENSE { "dense" } else { "sparse" }, if plan { "plan" } else { "direct" }));
                    }
                }
            }
        }
    }
    Ok(n)
}

pub fn replay(case: &Value) -> Result<(), String> {
    if let Some(r) = replay_delegate("C06", case) {
        return r;
    }
    check_size(case["K"].as_u64().unwrap() as u32, case["dense"].as_bool().unwrap(), case["data"].as_str().unwrap()).map(|_| ())
}

fn enumerate(ctx: &Ctx, st: &Stats) {
    let checked = is_checked_build();
    let sizes = all_sizes_with_minpad();
    let mut work: Vec<(u32, bool, &'static str)> = vec![];
    for &k in &sizes {
        let kp = rfcref::params_for_k(k).Kp;
        if checked {
            // the solver's self-verification is O(L^3)
            let lim = if ctx.quick() { 260 } else { 1100 };
            if kp <= lim {
                work.push((k, true, "pos"));
            }
            continue;
        }
        if ctx.quick() && k != kp && kp > 1100 && !LARGE_EXTRA.contains(&kp) {
            continue; // quick tier: the minimum-K partner only for K' <= 1100 and the large ladder
        }
        // dense back-end: quick K'<=1100; thorough every K' (for K'>12000 only K=K', data pos: 59 s per solve at 56403)
        let dense = if ctx.quick() { kp <= 700 } else { kp <= 12000 || k == kp };
        work.push((k, dense, "pos"));
        if (ctx.thorough() && kp <= 12000) || kp <= 300 {
            work.push((k, true, "ff"));
        }
    }
    // heaviest first
    work.sort_by_key(|w| std::cmp::Reverse((w.0 as u64) * if w.1 { 100 } else { 1 }));
    par_for(work.len(), |i| {
        let (k, dense, d) = work[i];
        match check_size(k, dense, d) {
            Ok(n) => {
                st.eval(n);
                st.nontriv(1);
                st.count("variants_built", n);
                st.count(if dense { "sizes_dense_and_sparse" } else { "sizes_sparse_only" }, 1);
                if k != rfcref::params_for_k(k).Kp {
                    st.count("sizes_with_padding", 1);
                }
            }
            Err(m) => st.violation(format!("{}:{}:{}", k, dense, d), m, json!({"K":k,"dense":dense,"data":d})),
        }
    });
    st.count("kprime_values", TABLE2.len() as u64);
}

pub fn run(ctx: &Ctx) -> i32 {
    let st = Stats::new();
    enumerate(ctx, &st);
    if ctx.flag("--child") {
        return child_emit(&st);
    }
    run_child_and_merge(ctx, &st, "RQ_BIN_CHECKED", "checked", &[]);
    st.sample(json!({"K":56403,"variants":["sparse/direct","sparse/plan"],"oracle":"S LDPC + H HDPC + K' LT relations (incl. padding rows) by rfcref"}));
    st.sample(json!({"K":11,"Kprime":12,"padding_symbols":1,"variants":["sparse/direct","sparse/plan","dense/direct","dense/plan"]}));
    let full = ctx.thorough();
    finish(ctx, &st, Finish {
        level: "exploration",
        rule: format!("complete product over all 477 K' x {{K=K', K=smallest K mapping to K' (quick tier: only for K'<=1100 and the large ladder)}} ({} block sizes in the thorough tier) x {{direct solve, plan generated then replayed}} x {{sparse back-end{}}}, T=2, data pos{}; each variant must build without panic, all variants of a size must give identical intermediate symbols, and these must satisfy every LDPC, HDPC and LT relation (padding rows included) of the reference; repeated in the debug-assertions build for K'<={} (counters checked/...). distinct_nontrivial = (size, data) combinations certified.", all_sizes_with_minpad().len(), if full { ", dense back-end for every K' (both partners up to K'=12000)}} for every size" } else { "}} for every size, dense back-end for K'<=700" }, if full { " and ff" } else { " (ff for K'<=300)" }, if full { 1100 } else { 260 }),
        exhaustive: full,
        assumptions: vec!["reference tables transcribed from the pinned commit".into(), "checked-profile runs stop at K' = 1100 (cubic self-checks)".into()],
        extra: Map::new(),
        must_be_nonzero: vec!["variants_built", "sizes_dense_and_sparse", "sizes_with_padding", "checked/variants_built"],
    }, replay)
}
