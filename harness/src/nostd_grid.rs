//! Kernel grid through the PUBLIC dispatchers only, self-contained (no harness dependencies) so that the
//! no_std harness can include it: in a no_std build the dispatchers take their real portable path (whatever
//! that path is), which the per-kernel hook cannot anticipate. Prints one line "GRID-OK calls=<n>" or
//! "GRID-FAIL <description>" per failure (at most 10) followed by "GRID-DONE calls=<n> failures=<m>".
use raptorq::verif::{add_assign, fused_addassign_mul_scalar, fused_addassign_mul_scalar_binary, mulassign_scalar, BinaryOctetVec, Octet};

fn gf_mul(a: u8, b: u8) -> u8 {
    let (mut a, mut b, mut r) = (a as u16, b, 0u16);
    while b != 0 {
        if b & 1 != 0 {
            r ^= a;
        }
        a <<= 1;
        if a & 0x100 != 0 {
            a ^= 0x11D;
        }
        b >>= 1;
    }
    r as u8
}

fn lcg(seed: u64, len: usize) -> Vec<u8> {
    let mut x = seed.wrapping_mul(6364136223846793005).wrapping_add(1442695040888963407);
    (0..len)
        .map(|_| {
            x = x.wrapping_mul(6364136223846793005).wrapping_add(1442695040888963407);
            (x >> 56) as u8
        })
        .collect()
}

fn pack(bits: &[u8]) -> BinaryOctetVec {
    let len = bits.len();
    let padding = (64 - len % 64) % 64;
    let mut el = vec![0u64; len.div_ceil(64)];
    for (e, &b) in bits.iter().enumerate() {
        if b != 0 {
            let pos = padding + e;
            el[pos / 64] |= 1u64 << (pos % 64);
        }
    }
    BinaryOctetVec::new(el, len)
}

pub fn run(max_len: usize) -> (u64, Vec<String>) {
    let mut mul = vec![[0u8; 256]; 256];
    for a in 0..256 {
        for b in 0..256 {
            mul[a][b] = gf_mul(a as u8, b as u8);
        }
    }
    let mut calls = 0u64;
    let mut fails: Vec<String> = vec![];
    let checked = cfg!(debug_assertions);
    for len in 0..=max_len {
        let d0 = lcg(len as u64 + 1, len);
        let s0 = lcg(len as u64 + 1000, len);
        let big = lcg(7, len + 16);
        for off in [0usize, 1, 7] {
            // add_assign
            let mut d = big.clone();
            add_assign(&mut d[off..off + len], &s0);
            calls += 1;
            for i in 0..len {
                if d[off + i] != big[off + i] ^ s0[i] {
                    fails.push(format!("add_assign len {} offset {} element {}", len, off, i));
                    break;
                }
            }
            if d[..off] != big[..off] || d[off + len..] != big[off + len..] {
                fails.push(format!("add_assign len {} offset {}: bytes outside the destination changed", len, off));
            }
        }
        let scalars: Vec<u8> = if len <= 70 || len % 64 <= 1 || len % 64 == 63 { (0..=255).collect() } else { vec![0, 1, 2, 0x1D, 0x80, 0xFF] };
        for &c in &scalars {
            let sc = Octet::new(c);
            let mut d = d0.clone();
            mulassign_scalar(&mut d, &sc);
            calls += 1;
            if let Some(i) = (0..len).find(|&i| d[i] != mul[d0[i] as usize][c as usize]) {
                fails.push(format!("mulassign_scalar len {} scalar {} element {}", len, c, i));
            }
            if !(checked && (c == 0 || c == 1)) {
                let mut d = d0.clone();
                fused_addassign_mul_scalar(&mut d, &s0, &sc);
                calls += 1;
                if let Some(i) = (0..len).find(|&i| d[i] != d0[i] ^ mul[s0[i] as usize][c as usize]) {
                    fails.push(format!("fused_addassign_mul_scalar len {} scalar {} element {}", len, c, i));
                }
            }
        }
        // binary: patterns incl. one-hot at every position for short vectors
        let mut pats: Vec<Vec<u8>> = vec![vec![0; len], vec![1; len], (0..len).map(|i| (i % 2) as u8).collect(), (0..len).map(|i| (i % 3 == 0) as u8).collect(), lcg(9, len).into_iter().map(|b| b & 1).collect()];
        if len <= 130 {
            for p in 0..len {
                let mut v = vec![0u8; len];
                v[p] = 1;
                pats.push(v);
            }
        } else {
            for p in [0, 63, 64, 65, len - 1] {
                let mut v = vec![0u8; len];
                v[p.min(len - 1)] = 1;
                pats.push(v);
            }
        }
        for bits in &pats {
            let packed = pack(bits);
            for c in [1u8, 2, 0xFF, 0] {
                if checked && c == 0 {
                    continue;
                }
                let mut d = d0.clone();
                fused_addassign_mul_scalar_binary(&mut d, &packed, &Octet::new(c));
                calls += 1;
                if let Some(i) = (0..len).find(|&i| d[i] != d0[i] ^ if bits[i] != 0 { c } else { 0 }) {
                    fails.push(format!("fused_addassign_mul_scalar_binary len {} scalar {} element {} (bits {:?}...)", len, c, i, &bits[..len.min(8)]));
                }
            }
        }
        if fails.len() > 10 {
            break;
        }
    }
    (calls, fails)
}

pub fn main_grid(tag: &str, max_len: usize) {
    let (calls, fails) = run(max_len);
    for f in fails.iter().take(10) {
        println!("GRID-FAIL {} {}", tag, f);
    }
    println!("GRID-DONE {} calls={} failures={}", tag, calls, fails.len());
}
