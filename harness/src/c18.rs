//! C18 — the repair stream is addressed consistently (fountain property).
use crate::codec::*;
use crate::common::*;
use crate::rfcref;
use raptorq::{Encoder, EncodingPacket, ObjectTransmissionInformation as Oti, SourceBlockEncoder, SourceBlockEncodingPlan};
use serde_json::{json, Map, Value};

fn singles(enc: &SourceBlockEncoder, s: u32, n: u32) -> Vec<EncodingPacket> {
    (s..s + n).flat_map(|i| enc.repair_packets(i, 1)).collect()
}

/// window(s, n) == singles s..s+n-1, ids = K+s.., all distinct
fn check_window(enc: &SourceBlockEncoder, k: u32, s: u32, n: u32) -> Result<(), String> {
    let w = guarded(|| enc.repair_packets(s, n)).map_err(|e| format!("K={}: repair_packets({}, {}) panicked: {}", k, s, n, e))?;
    let one = guarded(|| singles(enc, s, n)).map_err(|e| format!("K={}: single repair_packets in {}..{} panicked: {}", k, s, s + n, e))?;
    if w.len() != n as usize {
        return Err(format!("K={}: repair_packets({}, {}) returned {} packets", k, s, n, w.len()));
    }
    for i in 0..n as usize {
        let esi = k + s + i as u32;
        if w[i].payload_id().encoding_symbol_id() != esi || w[i].payload_id().source_block_number() != one[i].payload_id().source_block_number() {
            return Err(format!("K={}: window({}, {})[{}] has ESI {}, want {}", k, s, n, i, w[i].payload_id().encoding_symbol_id(), esi));
        }
        if w[i] != one[i] {
            return Err(format!("K={}: window({}, {})[{}] (ESI {}) differs from the single-packet request {}", k, s, n, i, esi, s + i as u32));
        }
    }
    Ok(())
}

fn encoders_for(k: u32, t: u16, data: &[u8]) -> Result<Vec<(&'static str, SourceBlockEncoder)>, String> {
    let cfg = block_cfg(k, t);
    guarded(|| {
        let p1 = SourceBlockEncodingPlan::generate(k as u16);
        let p2 = SourceBlockEncodingPlan::generate(k as u16);
        let p3 = p1.clone();
        vec![
            ("cache", SourceBlockEncoder::new(0, &cfg, data)),
            ("plan1", SourceBlockEncoder::with_encoding_plan(0, &cfg, data, &p1)),
            ("plan2", SourceBlockEncoder::with_encoding_plan(0, &cfg, data, &p2)),
            ("plan-clone", SourceBlockEncoder::with_encoding_plan(0, &cfg, data, &p3)),
            ("unplanned", SourceBlockEncoder::verif_new_unplanned(0, &cfg, data, 250)),
            ("cache-again", SourceBlockEncoder::new(0, &cfg, data)),
        ]
    })
    .map_err(|e| format!("K={} T={}: building encoders panicked: {}", k, t, e))
}

fn check_block(k: u32, t: u16, max_win: u32) -> Result<u64, String> {
    let data = data_pos(k as usize * t as usize);
    let encs = encoders_for(k, t, &data)?;
    let enc = &encs[0].1;
    let mut n = 0u64;
    // plans interchangeable
    let base: Vec<EncodingPacket> = guarded(|| {
        let mut v = enc.source_packets();
        v.extend(enc.repair_packets(0, max_win));
        for e in far_esis(k) {
            v.push(repair_packet(enc, k, e));
        }
        v
    })
    .map_err(|e| format!("K={}: packets panicked: {}", k, e))?;
    for (name, other) in encs.iter().skip(1) {
        let o: Vec<EncodingPacket> = guarded(|| {
            let mut v = other.source_packets();
            v.extend(other.repair_packets(0, max_win));
            for e in far_esis(k) {
                v.push(repair_packet(other, k, e));
            }
            v
        })
        .map_err(|e| format!("K={}: packets ({}) panicked: {}", k, name, e))?;
        if o != base {
            let i = (0..o.len().min(base.len())).find(|&i| o[i] != base[i]);
            return Err(format!("K={} T={}: encoder built via {} gives different packets than the cached-plan encoder (first difference at index {:?})", k, t, name, i));
        }
        n += 1;
    }
    // all IDs distinct
    let mut ids: Vec<(u8, u32)> = base.iter().map(|p| (p.payload_id().source_block_number(), p.payload_id().encoding_symbol_id())).collect();
    ids.sort_unstable();
    ids.dedup();
    if ids.len() != base.len() {
        return Err(format!("K={}: duplicate payload IDs among source+repair packets", k));
    }
    // every window (s, n), s + n <= max_win
    for s in 0..max_win {
        for len in 0..=(max_win - s) {
            check_window(enc, k, s, len)?;
            n += 1;
        }
    }
    // overlapping windows agree with the base list (window (0,max_win) was the base)
    for s in 0..max_win {
        let w = guarded(|| enc.repair_packets(s, max_win - s)).map_err(|e| format!("K={}: panic {}", k, e))?;
        if w[..] != base[(k + s) as usize..(k + max_win) as usize] {
            return Err(format!("K={}: window({}, {}) disagrees with window(0, {}) on the overlap", k, s, max_win - s, max_win));
        }
        n += 1;
    }
    // long windows: lengths around the number of intermediate symbols L and around K, K', 2L, 1000 (any length at
    // which an implementation might switch strategy), at two offsets; checked against single requests at the
    // window's first, middle and last positions and against the next window
    {
        let p = rfcref::params_for_k(k);
        let mut lens: Vec<u32> = vec![];
        for c in [p.L, p.Kp, k, 2 * p.L, 64, 256, 1000] {
            for d in [-1i64, 0, 1] {
                let l = c as i64 + d;
                if l > max_win as i64 && l <= 3000 && (k <= 1100 || l <= 300) {
                    lens.push(l as u32);
                }
            }
        }
        lens.sort_unstable();
        lens.dedup();
        for &len in &lens {
            for s in [0u32, 5] {
                let w = guarded(|| enc.repair_packets(s, len)).map_err(|e| format!("K={}: repair_packets({}, {}) panicked: {}", k, s, len, e))?;
                if w.len() != len as usize {
                    return Err(format!("K={}: window({}, {}) has {} packets", k, s, len, w.len()));
                }
                for i in [0u32, 1, len / 2, len - 2, len - 1] {
                    let one = guarded(|| enc.repair_packets(s + i, 1)).map_err(|e| format!("K={}: panic {}", k, e))?;
                    if w[i as usize] != one[0] {
                        return Err(format!("K={}: window({}, {})[{}] (ESI {}) differs from the single-packet request", k, s, len, i, k + s + i));
                    }
                }
                // the short window list computed above overlaps the beginning
                let upto = (max_win.saturating_sub(s)).min(len) as usize;
                if w[..upto] != base[(k + s) as usize..(k + s) as usize + upto] {
                    return Err(format!("K={}: window({}, {}) disagrees with window(0, {}) on the overlap", k, s, len, max_win));
                }
                n += 1;
            }
        }
    }
    // the encoder is asked again in another order (descending singles, then a far packet, then the first window):
    // answers must not depend on what was asked before
    for sidx in (0..max_win).rev() {
        let one = guarded(|| enc.repair_packets(sidx, 1)).map_err(|e| format!("K={}: panic {}", k, e))?;
        if one[0] != base[(k + sidx) as usize] {
            return Err(format!("K={}: repair packet {} requested again after other requests differs from the first answer", k, sidx));
        }
        n += 1;
    }
    {
        let far = far_esis(k);
        let f1 = repair_packet(enc, k, far[3]);
        let again = guarded(|| enc.repair_packets(0, max_win)).map_err(|e| format!("K={}: panic {}", k, e))?;
        let f2 = repair_packet(enc, k, far[3]);
        if again[..] != base[k as usize..(k + max_win) as usize] || f1 != f2 || guarded(|| enc.source_packets()).map_err(|e| format!("K={}: panic {}", k, e))?[..] != base[..k as usize] {
            return Err(format!("K={}: the same requests repeated on the same encoder give different packets", k));
        }
        n += 1;
    }
    // far end: the last producible ESI is 2^24 - 1
    let last_start = (1u32 << 24) - k;
    for len in 1..=4u32 {
        for back in 0..=2u32 {
            let s = last_start - len - back;
            check_window(enc, k, s, len)?;
            n += 1;
        }
    }
    let w = guarded(|| enc.repair_packets(last_start - 1, 1)).map_err(|e| format!("K={}: last repair packet panicked: {}", k, e))?;
    if w[0].payload_id().encoding_symbol_id() != (1 << 24) - 1 {
        return Err(format!("K={}: last repair packet has ESI {}", k, w[0].payload_id().encoding_symbol_id()));
    }
    Ok(n)
}

/// whole stream in windows of 65536 equals per-ESI reference (K small) and windows of another size
fn check_stream(k: u32) -> Result<u64, String> {
    let p = rfcref::params_for_k(k);
    let data = data_pos(k as usize);
    let cfg = block_cfg(k, 1);
    let enc = guarded(|| SourceBlockEncoder::new(0, &cfg, &data)).map_err(|e| format!("K={}: panic {}", k, e))?;
    let c = enc.verif_intermediate_symbols();
    let total = (1u32 << 24) - k;
    let chunks: Vec<u32> = (0..total.div_ceil(65536)).collect();
    // (smallest failing position, message): deterministic whatever the thread schedule
    let err: std::sync::Mutex<Option<(u32, String)>> = std::sync::Mutex::new(None);
    let set_err = |pos: u32, m: String| {
        let mut e = err.lock().unwrap();
        if e.as_ref().map(|x| pos < x.0).unwrap_or(true) {
            *e = Some((pos, m));
        }
    };
    par_for(chunks.len(), |ci| {
        let s = chunks[ci] * 65536;
        let cnt = 65536.min(total - s);
        if err.lock().unwrap().as_ref().map(|x| x.0 < s).unwrap_or(false) {
            return;
        }
        let r = guarded(|| {
            let w = enc.repair_packets(s, cnt);
            // a second, differently aligned tiling of the same range
            let mut w2 = vec![];
            let mut a = s;
            while a < s + cnt {
                let l = 4099.min(s + cnt - a);
                w2.extend(enc.repair_packets(a, l));
                a += l;
            }
            (w, w2)
        });
        match r {
            Err(e) => set_err(s, format!("K={}: stream chunk {} panicked: {}", k, s, e)),
            Ok((w, w2)) => {
                if w != w2 {
                    set_err(s, format!("K={}: tilings of repair range {}..{} by 65536 and by 4099 disagree", k, s, s + cnt));
                    return;
                }
                for (i, x) in w.iter().enumerate() {
                    let esi = k + s + i as u32;
                    if x.payload_id().encoding_symbol_id() != esi || x.data() != &ref_symbol(&p, k, &c, esi)[..] {
                        set_err(s + i as u32, format!("K={}: stream packet ESI {} differs from the per-ESI reference", k, esi));
                        return;
                    }
                }
            }
        }
    });
    if let Some(e) = err.into_inner().unwrap() {
        return Err(e.1);
    }
    Ok(total as u64)
}

/// object level: list = per block in order, ESIs 0..K-1 then K..K+r-1, block's SBN
fn check_object(f: u64, t: u16, z: u8, n: u16, al: u8, r: u32) -> Result<(), String> {
    let data = data_pos(f as usize);
    let cfg = Oti::new(f, t, z, n, al);
    let lay = rfcref::layout(f, t as u64, z as u64, n as u64, al as u64);
    let enc = guarded(|| Encoder::new(&data, cfg)).map_err(|e| format!("Encoder::new panicked: {}", e))?;
    let pk = guarded(|| enc.get_encoded_packets(r)).map_err(|e| format!("get_encoded_packets({}) panicked: {}", r, e))?;
    let mut want: Vec<(u8, u32)> = vec![];
    for b in &lay {
        for e in 0..b.K + r {
            want.push((b.sbn, e));
        }
    }
    let got: Vec<(u8, u32)> = pk.iter().map(|p| (p.payload_id().source_block_number(), p.payload_id().encoding_symbol_id())).collect();
    if got != want {
        return Err(format!("({},{},{},{},{}) r={}: packet id list {:?}, want {:?}", f, t, z, n, al, r, got.iter().take(20).collect::<Vec<_>>(), want.iter().take(20).collect::<Vec<_>>()));
    }
    // the repair part of each block equals what the block encoder gives on its own
    let mut i = 0;
    for (bi, b) in lay.iter().enumerate() {
        let be = &enc.get_block_encoders()[bi];
        let own: Vec<EncodingPacket> = be.source_packets().into_iter().chain(be.repair_packets(0, r)).collect();
        if pk[i..i + (b.K + r) as usize] != own[..] {
            return Err(format!("({},{},{},{},{}) r={}: block {} packets differ from the block encoder's own", f, t, z, n, al, r, bi));
        }
        i += (b.K + r) as usize;
    }
    // the same Encoder asked again, and asked for more: lists must be stable and extend each other block by block
    {
        let again = guarded(|| enc.get_encoded_packets(r)).map_err(|e| format!("get_encoded_packets({}) (second call) panicked: {}", r, e))?;
        if again != pk {
            return Err(format!("({},{},{},{},{}) r={}: a second get_encoded_packets({}) call on the same encoder returns a different list", f, t, z, n, al, r, r));
        }
        let more = guarded(|| enc.get_encoded_packets(r + 2)).map_err(|e| format!("get_encoded_packets({}) panicked: {}", r + 2, e))?;
        let (mut i, mut j) = (0usize, 0usize);
        for b in &lay {
            let a = (b.K + r) as usize;
            let c = (b.K + r + 2) as usize;
            if more[j..j + a] != pk[i..i + a] {
                return Err(format!("({},{},{},{},{}): block {}: get_encoded_packets({}) is not a per-block prefix of get_encoded_packets({})", f, t, z, n, al, b.sbn, r, r + 2));
            }
            i += a;
            j += c;
        }
        let back = guarded(|| enc.get_encoded_packets(r)).map_err(|e| format!("get_encoded_packets({}) (third call) panicked: {}", r, e))?;
        if back != pk {
            return Err(format!("({},{},{},{},{}) r={}: get_encoded_packets({}) after a larger request returns a different list", f, t, z, n, al, r, r));
        }
    }
    // ... and what a stand-alone block encoder (own plan from the cache, and an explicitly generated plan) gives
    // for the same bytes: plans handed from block to block inside Encoder::new must be interchangeable
    let mut i = 0;
    for b in lay.iter() {
        let mut bytes: Vec<u8> = data[(b.start as usize).min(data.len())..(b.end as usize).min(data.len())].to_vec();
        bytes.resize(b.K as usize * t as usize, 0);
        let kk = b.K;
        let alone = guarded(|| SourceBlockEncoder::new(b.sbn, &cfg, &bytes)).map_err(|e| format!("({},{},{},{},{}): stand-alone SourceBlockEncoder::new for block {} panicked: {}", f, t, z, n, al, b.sbn, e))?;
        let far = (1u32 << 24) - 1;
        let own: Vec<EncodingPacket> = alone.source_packets().into_iter().chain(alone.repair_packets(0, r)).collect();
        if pk[i..i + (kk + r) as usize] != own[..] {
            let first = (0..(kk + r) as usize).find(|&j| pk[i + j] != own[j]).unwrap_or(0);
            return Err(format!("({},{},{},{},{}) r={}: block {} (K={}): packet with ESI {} from the object encoder differs from the packet a stand-alone encoder of the same block produces", f, t, z, n, al, r, b.sbn, kk, first));
        }
        let be = &enc.get_block_encoders()[b.sbn as usize];
        if r > 0 {
            let plan = SourceBlockEncodingPlan::generate(kk as u16);
            let planned = SourceBlockEncoder::with_encoding_plan(b.sbn, &cfg, &bytes, &plan);
            for (s0, cnt) in [(0u32, r + 2), (far - kk - 1, 2)] {
                let a = be.repair_packets(s0, cnt);
                if a != alone.repair_packets(s0, cnt) || a != planned.repair_packets(s0, cnt) {
                    return Err(format!("({},{},{},{},{}): block {} (K={}): repair window ({}, {}) differs between the object's block encoder, a stand-alone encoder and an encoder with a freshly generated plan", f, t, z, n, al, b.sbn, kk, s0, cnt));
                }
            }
        }
        i += (kk + r) as usize;
    }
    Ok(())
}

pub fn replay(case: &Value) -> Result<(), String> {
    let g = |n: &str| case[n].as_u64().unwrap_or(0);
    match case["kind"].as_str().unwrap_or("") {
        "block" => check_block(g("K") as u32, g("T") as u16, g("win") as u32).map(|_| ()),
        "stream" => check_stream(g("K") as u32).map(|_| ()),
        "object" => check_object(g("F"), g("T") as u16, g("Z") as u8, g("N") as u16, g("Al") as u8, g("r") as u32),
        k => Err(format!("unknown kind {}", k)),
    }
}

pub fn run(ctx: &Ctx) -> i32 {
    let st = Stats::new();
    let win = 24u32;
    let mut blocks: Vec<(u32, u16)> = vec![];
    for k in if ctx.quick() { mid_ladder() } else { large_ladder() } {
        blocks.push((k, 1));
        if k <= 1050 {
            blocks.push((k, 5));
        }
    }
    blocks.sort_by_key(|b| std::cmp::Reverse(b.0));
    par_for(blocks.len(), |i| {
        let (k, t) = blocks[i];
        match check_block(k, t, win) {
            Ok(n) => {
                st.eval(n);
                st.nontriv(1);
                st.count("blocks", 1);
                st.count("windows_and_plan_variants", n);
            }
            Err(m) => st.violation(format!("block:{}:{}", k, t), m, json!({"kind":"block","K":k,"T":t,"win":win})),
        }
    });
    for k in if ctx.quick() { vec![10u32] } else { vec![10u32, 257] } {
        match check_stream(k) {
            Ok(n) => {
                st.eval(n);
                st.count("stream_packets", n);
                st.nontriv(1);
            }
            Err(m) => st.violation(format!("stream:{}", k), m, json!({"kind":"stream","K":k})),
        }
    }
    let ts: Vec<u16> = if ctx.quick() { (1..=6).collect() } else { (1..=8).collect() };
    let cfgs = crate::c05::box_configs(&ts, 6, 3, 8);
    par_for_chunk(cfgs.len(), 32, |i| {
        let (f, t, z, n, al) = cfgs[i];
        for r in [0u32, 1, 3] {
            st.eval(1);
            match check_object(f, t, z, n, al, r) {
                Ok(()) => {
                    st.count("object_lists", 1);
                    if z > 1 && r > 0 { st.nontriv(1); }
                }
                Err(m) => st.violation(format!("object:{}:{}:{}:{}:{}:{}", f, t, z, n, al, r), m, json!({"kind":"object","F":f,"T":t,"Z":z,"N":n,"Al":al,"r":r})),
            }
        }
    });
    // tall objects: block sizes straddling the table values K' (KL = KS + 1 on both sides of a K')
    let mut tall: Vec<(u64, u16, u8, u16, u8)> = vec![];
    let max_kt: u64 = if ctx.quick() { 330 } else { 1300 };
    for kt in 2..=max_kt {
        for z in 2..=(if ctx.quick() { 5u64 } else { 7 }) {
            if z > kt || (ctx.thorough() && kt > 700 && z > 4) { continue; }
            tall.push((kt, 1, z as u8, 1, 1));
            if kt % 3 == 0 { tall.push((kt * 2 - 1, 2, z as u8, 2, 1)); }
        }
    }
    par_for_chunk(tall.len(), 8, |i| {
        let (f, t, z, n, al) = tall[i];
        st.eval(1);
        match check_object(f, t, z, n, al, 2) {
            Ok(()) => { st.count("tall_object_lists", 1); st.nontriv(1); }
            Err(m) => st.violation(format!("object:{}:{}:{}:{}:{}:{}", f, t, z, n, al, 2), m, json!({"kind":"object","F":f,"T":t,"Z":z,"N":n,"Al":al,"r":2})),
        }
    });
    st.sample(json!({"kind":"block","K":10,"T":5,"windows":"all (s,n) with s+n<=24; far windows ending at ESI 2^24-1; 6 encoders (cache, 2 fresh plans, clone, unplanned, cache again) packet-identical"}));
    st.sample(json!({"kind":"stream","K":10,"packets":(1u32<<24)-10}));
    st.sample(json!({"kind":"object","config":[23,4,3,2,2],"r":3,"ids":"SBN0: 0..K0+2, SBN1: 0..K1+2, SBN2: ..."}));
    finish(ctx, &st, Finish {
        level: "exploration",
        rule: format!("for K in the {} ladder (T in {{1,5}}): every window (s,n), s+n<=24, equals the n single requests; long windows (lengths L, K', K, 2L, 64, 256, 1000, each +-1, at offsets 0 and 5) agree with single requests and with the short windows; overlapping windows agree; windows ending at ESI 2^24-1; six ways to obtain an encoder for the same K give identical packets; whole repair stream (2^24-K packets) of K in {} tiled by 65536 and by 4099 and compared per ESI with the reference; object level: every configuration of a (T<={},Kt<=6,Z<=3) box x r in {{0,1,3}}: id list = per block ESIs 0..K+r-1 with that block's SBN, and every block's packets (source, repair windows near and at ESI 2^24-1) equal those of a stand-alone SourceBlockEncoder::new and of with_encoding_plan(freshly generated plan) for the same bytes; the same for {} tall objects (every symbol count 2..={}, Z=2..{}, so that block sizes KL=KS+1 straddle every table size K' in range).", if ctx.quick() { "mid" } else { "large" }, if ctx.quick() { "{10}" } else { "{10,257}" }, ts.len(), tall.len(), max_kt, if ctx.quick() { 5 } else { 7 }),
        exhaustive: false,
        assumptions: vec!["requests with K+s+n > 2^24 are outside the property's quantifier and are not judged".into()],
        extra: Map::new(),
        must_be_nonzero: vec!["blocks", "stream_packets", "object_lists", "tall_object_lists"],
    }, replay)
}
