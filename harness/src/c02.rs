//! C02 — a block decodes exactly when the received symbols determine it.
//! Shape S: subset lattice of a packet universe, real SourceBlockDecoder cloned per branch,
//! reference rank oracle (echelon basis over GF(256)) carried along.
use crate::codec::*;
use crate::common::*;
use crate::explore::*;
use crate::rfcref::{self, Echelon, Params};
use raptorq::{EncodingPacket, SourceBlockDecoder, SourceBlockEncoder};
use serde_json::{json, Map, Value};

pub struct Universe {
    pub k: u32,
    pub p: Params,
    pub esis: Vec<u32>,
    pub packets: Vec<EncodingPacket>,
    pub rows: Vec<Vec<u8>>, // reference LT row of each packet
    pub data: Vec<u8>,
    pub threshold: u32,
    pub max_erased: usize,
    pub base_full: Echelon, // precode rows + padding rows
    pub base_gf2: Echelon,  // LDPC rows + padding rows only
    pub src_prefix: Vec<usize>, // src_prefix[i] = number of source symbols among universe items 0..i
}

pub fn make_universe(k: u32, esis: Vec<u32>, threshold: u32, max_erased: usize) -> Universe {
    let p = rfcref::params_for_k(k);
    let data = data_pos(k as usize);
    let cfg = block_cfg(k, 1);
    let enc = SourceBlockEncoder::new(0, &cfg, &data);
    let src = enc.source_packets();
    let packets: Vec<EncodingPacket> = esis.iter().map(|&e| if e < k { src[e as usize].clone() } else { repair_packet(&enc, k, e) }).collect();
    let rows: Vec<Vec<u8>> = esis.iter().map(|&e| rfcref::lt_row(&p, isi_of(&p, k, e))).collect();
    let mut base_full = Echelon::with_precode(&p);
    let mut base_gf2 = Echelon::with_ldpc_only(&p);
    for x in k..p.Kp {
        base_full.insert(rfcref::lt_row(&p, x));
        base_gf2.insert(rfcref::lt_row(&p, x));
    }
    let mut src_prefix = vec![0usize; esis.len() + 1];
    for (i, &e) in esis.iter().enumerate() {
        src_prefix[i + 1] = src_prefix[i] + (e < k) as usize;
    }
    Universe { k, p, esis, packets, rows, data, threshold, max_erased, base_full, base_gf2, src_prefix }
}

pub fn standard_esis(k: u32, near: u32) -> Vec<u32> {
    let mut v: Vec<u32> = (0..k + near).collect();
    v.extend(far_esis(k));
    v
}

#[derive(Clone)]
pub struct NodeState {
    dec: SourceBlockDecoder,
    full: Echelon,
    gf2: Echelon,
    nsrc: usize,
    nrecv: usize,
    erased: usize,
}

#[derive(Default)]
pub struct Local {
    nodes: u64,
    decode_attempts: u64,
    some: u64,
    none_rank_deficient: u64,
    all_source: u64,
    fastpath_entered: u64,
    fastpath_must_fall_back: u64,
    fastpath_succeeds: u64,
    below_k: u64,
    batch_attempts: u64,
}

pub struct Model<'a> {
    pub u: &'a Universe,
    pub st: &'a Stats,
}

impl Model<'_> {
    fn report(&self, path: &[usize], msg: String) {
        let u = self.u;
        let esis: Vec<u32> = path.iter().map(|&i| u.esis[i]).collect();
        self.st.violation(
            format!("K{}:th{}:{}", u.k, u.threshold, esis.iter().map(|e| e.to_string()).collect::<Vec<_>>().join(",")),
            msg,
            json!({"K": u.k, "threshold": u.threshold, "delivered_esis": esis}),
        );
    }
}

impl Lattice for Model<'_> {
    type State = NodeState;
    type Local = Local;
    fn n(&self) -> usize {
        self.u.esis.len()
    }
    fn init(&self) -> NodeState {
        NodeState { dec: new_block_decoder(self.u.k, 1, Some(self.u.threshold)), full: self.u.base_full.clone(), gf2: self.u.base_gf2.clone(), nsrc: 0, nrecv: 0, erased: 0 }
    }
    fn skip(&self, st: &mut NodeState, from: usize, to: usize) -> bool {
        // number of source symbols among the skipped items (the universe may be in any order)
        st.erased += self.u.src_prefix[to] - self.u.src_prefix[from];
        st.erased <= self.u.max_erased
    }
    fn deliver(&self, s: &mut NodeState, i: usize, path: &[usize], check: bool, l: &mut Local) {
        let u = self.u;
        let pkt = u.packets[i].clone();
        let r = guarded(|| s.dec.decode(std::iter::once(pkt)));
        s.full.insert(u.rows[i].clone());
        s.gf2.insert(u.rows[i].clone());
        s.nrecv += 1;
        if u.esis[i] < u.k {
            s.nsrc += 1;
        }
        if !check {
            return;
        }
        l.nodes += 1;
        let k = u.k as usize;
        let all_src = s.nsrc == k;
        let expect = all_src || s.full.full();
        if s.nrecv < k {
            l.below_k += 1;
        } else if all_src {
            l.all_source += 1;
        } else {
            l.decode_attempts += 1;
            // the decoder's fast path is entered when received + padding >= K' + H
            if s.nrecv >= k + u.p.H as usize {
                l.fastpath_entered += 1;
                if s.gf2.full() {
                    l.fastpath_succeeds += 1;
                } else if s.full.full() {
                    l.fastpath_must_fall_back += 1;
                }
            }
            if !expect {
                l.none_rank_deficient += 1;
            }
        }
        match r {
            Err(p) => self.report(path, format!("decode panicked: {} (rank {}/{}, {} source, {} received)", p, s.full.rank, u.p.L, s.nsrc, s.nrecv)),
            Ok(None) => {
                if expect {
                    self.report(path, format!("decoder gave up on a decodable set: {} symbols ({} source), constraint matrix rank {} = L{}", s.nrecv, s.nsrc, s.full.rank, if all_src { " (all source symbols present)" } else { "" }));
                }
            }
            Ok(Some(d)) => {
                l.some += 1;
                if !expect {
                    self.report(path, format!("decoder answered for an undecodable set: rank {} < L = {}", s.full.rank, u.p.L));
                } else if d != u.data {
                    self.report(path, "decoder returned wrong bytes".to_string());
                }
            }
        }
    }
    fn merge(&self, l: Local) {
        let st = self.st;
        st.state(l.nodes);
        st.transition(l.nodes);
        st.trace(l.nodes);
        st.eval(l.nodes);
        st.nontriv(l.decode_attempts);
        st.count("nodes", l.nodes);
        st.count("nodes_below_K_symbols", l.below_k);
        st.count("nodes_all_source_present", l.all_source);
        st.count("decode_attempts_solver", l.decode_attempts);
        st.count("answers_some", l.some);
        st.count("legit_failures_rank_deficient", l.none_rank_deficient);
        st.count("fastpath_entered", l.fastpath_entered);
        st.count("whole_set_in_one_call_attempts", l.batch_attempts);
        st.count("fastpath_gf2_regular", l.fastpath_succeeds);
        st.count("fastpath_singular_but_full_system_regular", l.fastpath_must_fall_back);
    }
}

/// replay: feed the recorded ESIs one at a time to a fresh decoder; recompute the rank from scratch
pub fn replay(case: &Value) -> Result<(), String> {
    if let Some(r) = replay_delegate("C02", case) {
        return r;
    }
    let k = case["K"].as_u64().unwrap() as u32;
    let th = case["threshold"].as_u64().unwrap() as u32;
    let esis: Vec<u32> = case["delivered_esis"].as_array().unwrap().iter().map(|x| x.as_u64().unwrap() as u32).collect();
    let u = make_universe(k, esis.clone(), th, usize::MAX);
    let mut dec = new_block_decoder(k, 1, Some(th));
    let mut full = u.base_full.clone();
    let mut nsrc = 0;
    for (i, &e) in esis.iter().enumerate() {
        let r = guarded(|| dec.decode(std::iter::once(u.packets[i].clone())));
        full.insert(u.rows[i].clone());
        if e < k {
            nsrc += 1;
        }
        let expect = nsrc == k as usize || full.full();
        if i + 1 >= k as usize + 3 && nsrc < k as usize {
            let pk: Vec<_> = (0..=i).map(|j| u.packets[j].clone()).collect();
            let mut fresh = new_block_decoder(k, 1, Some(th));
            match guarded(|| fresh.decode(pk)) {
                Err(p) => return Err(format!("step {}: decode of the whole set in one call panicked: {}", i, p)),
                Ok(None) if expect => return Err(format!("step {}: None for the whole set in one call although decodable (rank {} of {})", i, full.rank, u.p.L)),
                Ok(Some(_)) if !expect => return Err(format!("step {}: Some for the whole set in one call although rank {} < {}", i, full.rank, u.p.L)),
                Ok(Some(d)) if d != u.data => return Err(format!("step {}: wrong bytes for the whole set in one call", i)),
                _ => {}
            }
        }
        match r {
            Err(p) => return Err(format!("step {} (ESI {}): decode panicked: {}", i, e, p)),
            Ok(None) if expect => return Err(format!("step {} (ESI {}): None although decodable (rank {} of {}, {} source)", i, e, full.rank, u.p.L, nsrc)),
            Ok(Some(d)) if !expect => return Err(format!("step {} (ESI {}): Some({} bytes) although rank {} < {}", i, e, d.len(), full.rank, u.p.L)),
            Ok(Some(d)) if d != u.data => return Err(format!("step {} (ESI {}): wrong bytes", i, e)),
            _ => {}
        }
    }
    Ok(())
}

pub struct Job {
    pub k: u32,
    pub near: u32,
    pub max_erased: usize,
    pub threshold: u32,
    /// deliver the universe in reverse order (far repair, near repair descending, source descending), so that
    /// source symbols arrive after repair symbols and after failed solves
    pub reverse: bool,
}

fn jobs(ctx: &Ctx) -> Vec<Job> {
    let checked = is_checked_build();
    let mut v = vec![];
    let h = |k: u32| rfcref::params_for_k(k).H;
    if checked {
        v.push(Job { k: 2, near: if ctx.quick() { 12 } else { h(2) + 4 }, max_erased: 2, threshold: 250, reverse: false });
        if ctx.thorough() {
            v.push(Job { k: 10, near: h(10) + 4, max_erased: 1, threshold: 250, reverse: false });
            v.push(Job { k: 10, near: h(10) + 4, max_erased: 1, threshold: 0, reverse: false });
        }
        return v;
    }
    if ctx.quick() {
        v.push(Job { k: 2, near: h(2) + 4, max_erased: 2, threshold: 250, reverse: false });
        v.push(Job { k: 4, near: 10, max_erased: 4, threshold: 0, reverse: false });
        v.push(Job { k: 10, near: h(10) + 4, max_erased: 1, threshold: 250, reverse: false });
        v.push(Job { k: 12, near: h(12) + 2, max_erased: 1, threshold: 0, reverse: false });
        v.push(Job { k: 4, near: 10, max_erased: 4, threshold: 250, reverse: true });
        v.push(Job { k: 10, near: 8, max_erased: 1, threshold: 250, reverse: true });
    } else {
        v.push(Job { k: 2, near: h(2) + 4, max_erased: 2, threshold: 0, reverse: true });
        v.push(Job { k: 4, near: h(4) + 4, max_erased: 4, threshold: 250, reverse: true });
        v.push(Job { k: 10, near: h(10) + 4, max_erased: 1, threshold: 250, reverse: true });
        v.push(Job { k: 12, near: h(12) + 2, max_erased: 1, threshold: 0, reverse: true });
        v.push(Job { k: 26, near: h(26), max_erased: 1, threshold: 250, reverse: true });
        for k in [1u32, 2, 4] {
            for th in [250u32, 0] {
                v.push(Job { k, near: h(k) + 4, max_erased: k as usize, threshold: th, reverse: false });
            }
        }
        v.push(Job { k: 5, near: h(5) + 4, max_erased: 5, threshold: 250, reverse: false });
        v.push(Job { k: 9, near: h(9) + 4, max_erased: 1, threshold: 0, reverse: false });
        v.push(Job { k: 10, near: h(10) + 4, max_erased: 2, threshold: 250, reverse: false });
        v.push(Job { k: 10, near: h(10) + 4, max_erased: 1, threshold: 0, reverse: false });
        v.push(Job { k: 11, near: h(11) + 4, max_erased: 1, threshold: 250, reverse: false });
        v.push(Job { k: 12, near: h(12) + 4, max_erased: 1, threshold: 0, reverse: false });
        for k in [13u32, 18, 19, 20, 26] {
            v.push(Job { k, near: h(k) + 2, max_erased: 1, threshold: if k % 2 == 0 { 250 } else { 0 }, reverse: false });
        }
        for k in [46u32, 49, 55, 60, 101] {
            v.push(Job { k, near: h(k), max_erased: 1, threshold: if k % 2 == 0 { 0 } else { 250 }, reverse: false });
        }
    }
    v
}

/// mid ladder: fixed erasure patterns x every subset of a repair universe (sparse and dense back-ends)
fn mid_jobs(ctx: &Ctx, st: &Stats) {
    if is_checked_build() {
        return;
    }
    let ks: Vec<u32> = if ctx.quick() { vec![248, 257] } else { vec![248, 249, 257, 500, 1000, 1050] };
    let mut work: Vec<(u32, Vec<u32>, u32, u32)> = vec![]; // (k, erased source, #repair, threshold)
    for &k in &ks {
        let pats: Vec<Vec<u32>> = vec![vec![0], vec![k / 2], vec![k - 1], vec![0, k / 2], vec![0, k - 1], vec![k / 2, k - 1]];
        for (pi, pat) in pats.into_iter().enumerate() {
            let reps = if pi == 0 && (k <= 257 || ctx.thorough()) { if ctx.quick() { 12 } else { 13 } } else { 6 };
            let th = if pi % 2 == 0 { 250 } else if k >= 250 { u32::MAX } else { 0 };
            work.push((k, pat, reps, th));
        }
    }
    par_for(work.len(), |w| {
        let (k, pat, reps, th) = &work[w];
        let (k, reps, th) = (*k, *reps, *th);
        // universe: all source except the erased ones are delivered up-front (not enumerated), then subsets of repair
        let mut esis: Vec<u32> = (0..k).filter(|e| !pat.contains(e)).collect();
        let nfixed = esis.len();
        esis.extend(k..k + reps - 2);
        esis.extend([(1 << 23) as u32, (1 << 24) - 1]);
        let u = make_universe(k, esis, th, usize::MAX);
        let m = Model { u: &u, st };
        let mut s = m.init();
        let mut l = Local::default();
        let mut path: Vec<usize> = vec![];
        for i in 0..nfixed {
            path.push(i);
            // prefix nodes (fewer than K symbols) are checked too: the answer must be None
            m.deliver(&mut s, i, &path, i + 1 == nfixed, &mut l);
        }
        fn rec(m: &Model, s: &NodeState, start: usize, path: &mut Vec<usize>, l: &mut Local) {
            for i in start..m.n() {
                let mut s2 = s.clone();
                path.push(i);
                m.deliver(&mut s2, i, path, true, l);
                rec(m, &s2, i + 1, path, l);
                path.pop();
            }
        }
        rec(&m, &s, nfixed, &mut path, &mut l);
        st.count("mid_ladder_nodes", l.nodes);
        m.merge(l);
    });
}

fn enumerate(ctx: &Ctx, st: &Stats) {
    for j in jobs(ctx) {
        let mut esis = standard_esis(j.k, j.near);
        if j.reverse {
            esis.reverse();
        }
        let u = make_universe(j.k, esis, j.threshold, j.max_erased);
        let before = st.counter("nodes");
        let m = Model { u: &u, st };
        explore_lattice(&m, 11, st);
        let nodes = st.counter("nodes") - before;
        st.note(format!("K={} universe={} (source {}, near repair {}, far 4) max_erased_source={} sparse_threshold={} order={} build={}: {} nodes", j.k, u.esis.len(), j.k, j.near, j.max_erased, j.threshold, if j.reverse { "reverse (repair first)" } else { "canonical" }, build_tag(), nodes));
        if st.want_sample() {
            st.sample(json!({"K": j.k, "universe_esis": u.esis, "max_erased_source": j.max_erased, "sparse_threshold": j.threshold, "nodes": nodes, "example_node": "deliver ESIs 1..K-1 then repair K, K+1: decoder must answer iff rank = L"}));
        }
    }
    mid_jobs(ctx, st);
}

pub fn run(ctx: &Ctx) -> i32 {
    let st = Stats::new();
    enumerate(ctx, &st);
    if ctx.flag("--child") {
        return child_emit(&st);
    }
    run_child_and_merge(ctx, &st, "RQ_BIN_CHECKED", "checked", &[]);
    finish(ctx, &st, Finish {
        level: "model_checking",
        rule: "state graph of a real SourceBlockDecoder: nodes = decoder states reached by delivering a subset of a fixed packet universe (K source + H+4 near repair + 4 far repair ESIs) one packet per call in ascending (and, in the reverse jobs, descending) ESI order (clone per branch), all subsets with at most e erased source symbols (see notes for K, universe, e, back-end per job); at every node decode(..).is_some() must equal [all source present or rank_GF(256)(constraint matrix of the delivered ISIs incl. padding rows) = L] computed by an independent incremental echelon basis, and returned bytes must be the data; at every node with at least K+3 symbols the same set is also handed to a fresh decoder in ONE call (a single attempt that sees all the overhead at once) and judged by the same oracle. distinct_nontrivial = nodes where the solver actually ran (>= K symbols, not all source). Mid ladder: fixed erasure patterns x every subset of 6..13 repair symbols.".into(),
        exhaustive: false,
        assumptions: vec!["reference tables transcribed from the pinned commit".into(), "arrival order is ascending ESI, or (reverse jobs) descending so that source symbols arrive after repair symbols and after failed solves; full order independence is C08's".into()],
        extra: Map::new(),
        must_be_nonzero: vec!["nodes", "decode_attempts_solver", "legit_failures_rank_deficient", "fastpath_entered", "fastpath_singular_but_full_system_regular", "answers_some", "mid_ladder_nodes", "checked/nodes"],
    }, replay)
}
