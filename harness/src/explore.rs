//! Generic explorers over clones of real objects.
use crate::common::*;

/// Subset-lattice exploration: items 0..n are delivered in canonical (ascending) order or skipped.
/// Every node is the state after delivering a non-empty subset whose largest element was delivered last,
/// i.e. every non-empty admissible subset is visited exactly once, and every node is a prefix of an
/// arrival sequence of all its descendants.
pub trait Lattice: Sync {
    type State: Clone + Send;
    type Local: Default + Send;
    fn n(&self) -> usize;
    fn init(&self) -> Self::State;
    /// account for skipping items from..to (exclusive); false = not admissible (deviation bound)
    fn skip(&self, st: &mut Self::State, from: usize, to: usize) -> bool;
    /// deliver item i to the real object(s) in `st`; `check` = evaluate the oracle on the resulting node.
    /// `path` = delivered items so far including i.
    fn deliver(&self, st: &mut Self::State, i: usize, path: &[usize], check: bool, local: &mut Self::Local);
    fn merge(&self, local: Self::Local);
}

fn dfs<M: Lattice>(m: &M, st: &M::State, start: usize, path: &mut Vec<usize>, local: &mut M::Local, stats: &Stats) {
    let n = m.n();
    for i in start..n {
        if stats.stopped() {
            return;
        }
        let mut s2 = st.clone();
        if !m.skip(&mut s2, start, i) {
            break; // skipping even more can only be worse
        }
        path.push(i);
        m.deliver(&mut s2, i, path, true, local);
        dfs(m, &s2, i + 1, path, local, stats);
        path.pop();
    }
}

/// `split`: the subsets of the first `split` items are distributed over the worker threads
pub fn explore_lattice<M: Lattice>(m: &M, split: usize, stats: &Stats) {
    let n = m.n();
    let split = split.min(n).min(20);
    let tasks: usize = 1 << split;
    par_for(tasks, |mask| {
        let mut local = M::Local::default();
        let mut st = m.init();
        let mut path: Vec<usize> = vec![];
        let mut prev = 0usize;
        let chosen: Vec<usize> = (0..split).filter(|b| mask & (1 << b) != 0).collect();
        let mut ok = true;
        for (ci, &i) in chosen.iter().enumerate() {
            if !m.skip(&mut st, prev, i) {
                ok = false;
                break;
            }
            path.push(i);
            // only the node of the full chosen set belongs to this task
            m.deliver(&mut st, i, &path, ci + 1 == chosen.len(), &mut local);
            prev = i + 1;
        }
        if ok && m.skip(&mut st, prev, split) {
            dfs(m, &st, split, &mut path, &mut local, stats);
        }
        m.merge(local);
    });
}
