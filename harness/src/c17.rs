//! C17 — the shared encoding-plan cache is transparent and bounded under concurrency.
//! Schedules: loom (DPOR) over real threads running the real cache code (binary harness-loom/rqloom).
//! Histories: explicit-state exploration of request sequences on the real global cache against a FIFO model.
use crate::codec::*;
use crate::common::*;
use raptorq::verif::{verif_plan_cache_capacity, verif_plan_cache_clear, verif_plan_cache_snapshot};
use raptorq::{SourceBlockEncoder, SourceBlockEncodingPlan};
use serde_json::{json, Map, Value};
use std::collections::{HashMap, HashSet, VecDeque};

fn data_for(k: u16) -> Vec<u8> {
    data_lcg(k as u64, k as usize)
}

/// One request through the shared cache. The call runs in a (persistent) helper thread: a request that does
/// not return (a lost wake-up, an eviction loop that never ends) is a violation of its own, not a hang of the check.
type Job = (u16, std::sync::mpsc::Sender<Result<SourceBlockEncoder, String>>);
thread_local! {
    static WORKER: std::cell::RefCell<Option<std::sync::mpsc::Sender<Job>>> = const { std::cell::RefCell::new(None) };
}

fn spawn_worker() -> std::sync::mpsc::Sender<Job> {
    let (tx, rx) = std::sync::mpsc::channel::<Job>();
    std::thread::spawn(move || {
        while let Ok((k, reply)) = rx.recv() {
            let r = guarded(|| SourceBlockEncoder::new(0, &block_cfg(k as u32, 1), &data_for(k)));
            let _ = reply.send(r);
        }
    });
    tx
}

/// set once a request did not return: the stuck call may hold the cache's lock for ever, so nothing in this
/// process may touch the cache again
static STUCK: std::sync::atomic::AtomicBool = std::sync::atomic::AtomicBool::new(false);

fn stuck() -> bool {
    STUCK.load(std::sync::atomic::Ordering::SeqCst)
}

fn request(k: u16) -> Result<SourceBlockEncoder, String> {
    if stuck() {
        return Err("(skipped: an earlier request never returned)".into());
    }
    let (rtx, rrx) = std::sync::mpsc::channel();
    WORKER.with(|w| {
        let mut w = w.borrow_mut();
        if w.is_none() {
            *w = Some(spawn_worker());
        }
        if w.as_ref().unwrap().send((k, rtx.clone())).is_err() {
            let nw = spawn_worker();
            let _ = nw.send((k, rtx.clone()));
            *w = Some(nw);
        }
    });
    let limit = std::time::Duration::from_secs(if k > 20000 { 240 } else { 60 });
    match rrx.recv_timeout(limit) {
        Ok(r) => r.map_err(|e| format!("SourceBlockEncoder::new(K={}) panicked: {}", k, e)),
        Err(_) => {
            // the worker is stuck inside the library: abandon it, later requests get a new one
            WORKER.with(|w| *w.borrow_mut() = None);
            STUCK.store(true, std::sync::atomic::Ordering::SeqCst);
            Err(format!("SourceBlockEncoder::new(K={}) did not return within {} s (the call normally takes milliseconds): the shared plan cache is stuck", k, limit.as_secs()))
        }
    }
}

/// invariants of the cache contents after a request (what the property's anchor names; no eviction policy assumed)
fn check_snapshot(cap: usize) -> Result<(Vec<u16>, Vec<(u16, u16)>), String> {
    let (order, plans) = verif_plan_cache_snapshot();
    if plans.len() > cap {
        return Err(format!("cache holds {} plans, capacity {}", plans.len(), cap));
    }
    let mut so = order.clone();
    so.sort_unstable();
    let n = so.len();
    so.dedup();
    if so.len() != n {
        return Err(format!("insertion order {:?} contains a duplicate", order));
    }
    let keys: Vec<u16> = plans.iter().map(|p| p.0).collect();
    if so != keys {
        return Err(format!("insertion order {:?} does not list exactly the keys of the stored plans {:?}", order, keys));
    }
    for (k, c) in &plans {
        if k != c {
            return Err(format!("plan stored for key {} was generated for {} symbols", k, c));
        }
    }
    Ok((order, plans))
}

struct Refs {
    map: HashMap<u16, SourceBlockEncoder>,
}

impl Refs {
    fn get(&mut self, k: u16) -> &SourceBlockEncoder {
        self.map.entry(k).or_insert_with(|| {
            let plan = SourceBlockEncodingPlan::generate(k);
            SourceBlockEncoder::with_encoding_plan(0, &block_cfg(k as u32, 1), &data_for(k), &plan)
        })
    }
}

/// one request on the real cache: transparency + invariants; returns the cache order afterwards
fn step(k: u16, cap: usize, refs: &mut Refs) -> Result<Vec<u16>, String> {
    let enc = request(k)?;
    if stuck() {
        return Err("(skipped)".into());
    }
    let r = refs.get(k);
    if &enc != r {
        return Err(format!("encoder for K={} obtained through the cache differs from the one built from a fresh plan", k));
    }
    if enc.repair_packets(0, 3) != r.repair_packets(0, 3) || enc.source_packets() != r.source_packets() {
        return Err(format!("packets for K={} differ", k));
    }
    Ok(check_snapshot(cap)?.0)
}

/// replay a whole history on a cleared cache (deterministic whatever the eviction policy is)
fn replay_requests(reqs: &[u16], cap: usize, refs: &mut Refs, check_all: bool) -> Result<Vec<u16>, String> {
    if stuck() {
        return Err("(skipped: an earlier request never returned)".into());
    }
    verif_plan_cache_clear();
    let mut order = vec![];
    for (i, &k) in reqs.iter().enumerate() {
        if check_all || i + 1 == reqs.len() {
            order = step(k, cap, refs).map_err(|e| format!("request {} of {}: {}", i + 1, reqs.len(), e))?;
        } else {
            request(k)?;
        }
    }
    if reqs.is_empty() {
        order = check_snapshot(cap)?.0;
    }
    Ok(order)
}

/// request menu in a state: sizes chosen relative to the cache contents; small and large (>= 250: the other
/// matrix back-end, any size-dependent path of the cache) fresh sizes
fn alphabet(order: &[u16], evicted: Option<u16>) -> Vec<(&'static str, u16)> {
    let mut v = vec![];
    let mut fresh = (200u16..).filter(|k| !order.contains(k) && Some(*k) != evicted);
    v.push(("new1", fresh.next().unwrap()));
    v.push(("new2", fresh.next().unwrap()));
    let mut fresh_large = (400u16..).filter(|k| !order.contains(k) && Some(*k) != evicted);
    v.push(("new-large", fresh_large.next().unwrap()));
    if let Some(&k) = order.first() {
        v.push(("oldest", k));
    }
    if let Some(&k) = order.last() {
        v.push(("newest", k));
    }
    if let Some(k) = evicted {
        if !order.contains(&k) {
            v.push(("most-recently-evicted", k));
        }
    }
    if order.len() > 2 {
        v.push(("middle", order[order.len() / 2]));
    }
    v
}

/// seeds = request prefixes (non-initial starts)
fn seeds(cap: usize, quick: bool) -> Vec<(&'static str, Vec<u16>, usize)> {
    let mk = |n: usize| (1..=n as u16).collect::<Vec<u16>>();
    let depth = if quick { 3 } else { 5 };
    let mut after3 = mk(cap);
    after3.extend([150u16, 151, 152]);
    // every resident plan is large and has been hit once more (all "recently used")
    let large: Vec<u16> = (250..250 + cap as u16).collect();
    let mut large_touched = large.clone();
    large_touched.extend(large.iter().copied());
    let mut mixed_touched: Vec<u16> = (1..=(cap as u16 / 2)).chain(250..250 + cap as u16 / 2).collect();
    let again = mixed_touched.clone();
    mixed_touched.extend(again);
    vec![
        ("empty", mk(0), depth + 1),
        ("capacity-2", mk(cap - 2), depth),
        ("capacity-1", mk(cap - 1), depth),
        ("capacity", mk(cap), depth),
        ("capacity after 3 evictions", after3, depth),
        ("capacity, all plans large and requested twice", large_touched, 2),
        ("capacity, small and large plans, all requested twice", mixed_touched, if quick { 2 } else { 3 }),
    ]
}

fn histories(ctx: &Ctx, st: &Stats) {
    let cap = verif_plan_cache_capacity();
    let mut refs = Refs { map: HashMap::new() };
    for (sname, seed, depth) in seeds(cap, ctx.quick()) {
        if stuck() {
            break;
        }
        // a node is a request history; nodes are merged when the real cache contents (order list) are equal
        let mut seen: HashSet<(Vec<u16>, Option<u16>)> = HashSet::new();
        let mut queue: VecDeque<(Vec<u16>, usize, Vec<u16>, Option<u16>)> = VecDeque::new(); // (requests after the seed, depth, order, last evicted)
        let order0 = match replay_requests(&seed, cap, &mut refs, true) {
            Ok(o) => o,
            Err(m) => {
                st.violation(format!("history:{}:[]", sname), format!("seed '{}' ({} requests): {}", sname, seed.len(), m), json!({"kind":"history","seed":seed,"requests":[]}));
                continue;
            }
        };
        seen.insert((order0.clone(), None));
        queue.push_back((vec![], 0, order0, None));
        let (mut states, mut transitions, mut evictions, mut hits) = (0u64, 0u64, 0u64, 0u64);
        let mut failed = 0;
        while let Some((path, d, order, evicted)) = queue.pop_front() {
            states += 1;
            if d == depth || failed >= 20 || stuck() {
                continue;
            }
            for (name, k) in alphabet(&order, evicted) {
                let mut p2 = path.clone();
                p2.push(k);
                transitions += 1;
                let mut all = seed.clone();
                all.extend_from_slice(&p2);
                if stuck() {
                    break;
                }
                match replay_requests(&all, cap, &mut refs, false) {
                    Err(m) => {
                        failed += 1;
                        st.violation(format!("history:{}:{:?}", sname, p2), format!("seed '{}' ({} requests), then requests {:?} (last = {}): {}", sname, seed.len(), p2, name, m), json!({"kind":"history","seed":seed,"requests":p2}));
                    }
                    Ok(n) => {
                        let gone: Vec<u16> = order.iter().copied().filter(|x| !n.contains(x)).collect();
                        if !gone.is_empty() {
                            evictions += 1;
                        }
                        if order.contains(&k) {
                            hits += 1;
                        }
                        let ev = gone.last().copied().or(evicted);
                        if seen.insert((n.clone(), ev)) {
                            queue.push_back((p2, d + 1, n, ev));
                        }
                    }
                }
            }
        }
        st.state(states);
        st.transition(transitions);
        st.trace(transitions);
        st.eval(transitions);
        st.nontriv(states);
        st.count("history_states", states);
        st.count("history_transitions", transitions);
        st.count("history_evictions", evictions);
        st.count("history_cache_hits", hits);
        st.note(format!("histories from seed '{}': {} distinct cache states, {} transitions (depth {}), {} evictions, {} hits [t={:.1}s]", sname, states, transitions, depth, evictions, hits, ctx.elapsed()));
    }
    // un-deduplicated short sequences on one continuously living cache (no re-establishing in between)
    let keys = [1u16, 2, 300, 301];
    let n = keys.len();
    let len = if ctx.quick() { 4 } else { 6 };
    let mut count = 0u64;
    let base: Vec<u16> = (1..=(cap as u16 - 1)).collect();
    for code in 0..(n as u64).pow(len as u32) {
        if stuck() {
            break;
        }
        if let Err(m) = replay_requests(&base, cap, &mut refs, false) {
            st.violation("history:establish".into(), m, json!({"kind":"history","seed":base,"requests":[]}));
            break;
        }
        let mut c = code;
        let mut reqs = vec![];
        for _ in 0..len {
            let k = keys[(c % n as u64) as usize];
            c /= n as u64;
            reqs.push(k);
            count += 1;
            if let Err(m) = step(k, cap, &mut refs) {
                st.violation(format!("history:live:{:?}", reqs), format!("cache pre-filled with capacity-1 plans, requests {:?}: {}", reqs, m), json!({"kind":"history","seed":base,"requests":reqs}));
                break;
            }
        }
    }
    st.eval(count);
    st.trace(count);
    st.count("live_history_steps", count);
    if !stuck() {
        verif_plan_cache_clear();
    }
}

fn replay_history(case: &Value) -> Result<(), String> {
    let cap = verif_plan_cache_capacity();
    let seed: Vec<u16> = case["seed"].as_array().unwrap().iter().map(|x| x.as_u64().unwrap() as u16).collect();
    let reqs: Vec<u16> = case["requests"].as_array().unwrap().iter().map(|x| x.as_u64().unwrap() as u16).collect();
    let mut refs = Refs { map: HashMap::new() };
    let mut all = seed;
    all.extend(reqs);
    replay_requests(&all, cap, &mut refs, true).map(|_| ())
}

// ---------------------------------------------------------------- confusable size pairs
/// ordered pairs of block sizes that a cache keyed or matched by anything coarser than the exact symbol count
/// would confuse: rows of Table 2 sharing their systematic index J, neighbouring rows, and two sizes padded to
/// the same K'
fn confusable_pairs(quick: bool) -> Vec<(u16, u16)> {
    use crate::tables::TABLE2;
    let lim: u32 = if quick { 2600 } else { 56403 };
    let jlim: u32 = if quick { 12000 } else { 56403 };
    let mut v: Vec<(u16, u16)> = vec![];
    let n = TABLE2.len();
    for a in 0..n {
        for b in a + 1..n {
            if TABLE2[a].1 == TABLE2[b].1 && TABLE2[b].0 <= jlim {
                v.push((TABLE2[a].0 as u16, TABLE2[b].0 as u16));
                v.push((TABLE2[b].0 as u16, TABLE2[a].0 as u16));
            }
        }
        if TABLE2[a].0 > lim {
            continue;
        }
        if a + 1 < n {
            v.push((TABLE2[a].0 as u16, TABLE2[a + 1].0 as u16));
            v.push((TABLE2[a + 1].0 as u16, TABLE2[a].0 as u16));
            // the largest size of this row and the smallest of the next
            v.push((TABLE2[a].0 as u16, TABLE2[a].0 as u16 + 1));
            v.push((TABLE2[a].0 as u16 + 1, TABLE2[a].0 as u16));
        }
        let mink = crate::rfcref::min_k_for_index(a) as u16;
        let kp = TABLE2[a].0 as u16;
        if mink < kp {
            v.push((mink, kp));
            v.push((kp, mink));
            if kp - 1 > mink {
                v.push((kp - 1, kp));
            }
        }
    }
    v.sort_unstable();
    v.dedup();
    v
}

fn pair_case(k1: u16, k2: u16, refs: &mut Refs) -> Result<(), String> {
    let cap = verif_plan_cache_capacity();
    if stuck() {
        return Ok(());
    }
    verif_plan_cache_clear();
    step(k1, cap, refs).map_err(|e| format!("first request: {}", e))?;
    step(k2, cap, refs).map_err(|e| format!("cache holds the plan for K={}; request for K={}: {}", k1, k2, e))?;
    Ok(())
}

/// child side: the slice i of n of the pair list (the cache is process-global, so parallelism = processes)
fn pairs_child(ctx: &Ctx, st: &Stats, i: usize, n: usize) {
    let pairs = confusable_pairs(ctx.quick());
    let mut refs = Refs { map: HashMap::new() };
    for (idx, &(k1, k2)) in pairs.iter().enumerate() {
        if idx % n != i {
            continue;
        }
        st.eval(1);
        st.trace(2);
        st.count("pair_histories", 1);
        if let Err(m) = pair_case(k1, k2, &mut refs) {
            st.violation(format!("pair:{}:{}", k1, k2), format!("empty cache, request K={} then K={}: {}", k1, k2, m), json!({"kind":"pair","k1":k1,"k2":k2}));
        }
        // keep the reference map small
        if refs.map.len() > 8 {
            refs.map.clear();
        }
    }
    st.sample(json!({"kind":"pair","example":[pairs[0].0, pairs[0].1]}));
}


// ---------------------------------------------------------------- free-running threads (monitor, not exhaustive)
/// Real OS threads hammering the cache with a rotating mix of sizes for a fixed number of requests each. This is
/// NOT part of the exhaustive exploration (loom decides the schedules it can see); it is a monitor for
/// synchronisation that a change introduces outside the primitives loom intercepts. A failing execution is a
/// genuine counterexample; a silent run proves nothing and is reported as such.
fn stress(st: &Stats, rounds: usize) -> Result<u64, String> {
    if stuck() {
        return Ok(0);
    }
    let sizes: [u16; 6] = [10, 11, 40, 101, 257, 300];
    let refs: Vec<(u16, SourceBlockEncoder)> = sizes
        .iter()
        .map(|&k| {
            let plan = SourceBlockEncodingPlan::generate(k);
            (k, SourceBlockEncoder::with_encoding_plan(0, &block_cfg(k as u32, 1), &data_for(k), &plan))
        })
        .collect();
    verif_plan_cache_clear();
    let failure: std::sync::Mutex<Option<String>> = std::sync::Mutex::new(None);
    let done = std::sync::atomic::AtomicU64::new(0);
    let threads = 6usize;
    let (tx, rx) = std::sync::mpsc::channel::<()>();
    std::thread::scope(|sc| {
        for t in 0..threads {
            let refs = &refs;
            let failure = &failure;
            let done = &done;
            let tx = tx.clone();
            sc.spawn(move || {
                for i in 0..rounds {
                    if failure.lock().unwrap().is_some() {
                        break;
                    }
                    let k = sizes[(i * (t + 1) + t) % sizes.len()];
                    let r = guarded(|| SourceBlockEncoder::new(0, &block_cfg(k as u32, 1), &data_for(k)));
                    let want = &refs.iter().find(|x| x.0 == k).unwrap().1;
                    let bad = match r {
                        Err(p) => Some(format!("SourceBlockEncoder::new(K={}) panicked while {} threads use the cache: {}", k, threads, p)),
                        Ok(e) => {
                            if &e != want || guarded(|| e.repair_packets(0, 2)).ok() != Some(want.repair_packets(0, 2)) {
                                Some(format!("encoder for K={} obtained while {} threads use the cache with other sizes differs from the encoder built from a fresh plan", k, threads))
                            } else {
                                None
                            }
                        }
                    };
                    if let Some(m) = bad {
                        let mut f = failure.lock().unwrap();
                        if f.is_none() {
                            *f = Some(m);
                        }
                        break;
                    }
                    done.fetch_add(1, std::sync::atomic::Ordering::Relaxed);
                }
                let _ = tx.send(());
            });
        }
        drop(tx);
        // all workers must report back within the limit; otherwise the cache is stuck
        let deadline = std::time::Instant::now() + std::time::Duration::from_secs(120);
        let mut back = 0;
        while back < threads {
            let left = deadline.saturating_duration_since(std::time::Instant::now());
            match rx.recv_timeout(left) {
                Ok(()) => back += 1,
                Err(_) => {
                    let mut f = failure.lock().unwrap();
                    if f.is_none() {
                        *f = Some(format!("{} of {} free-running threads did not come back from SourceBlockEncoder::new within 120 s", threads - back, threads));
                    }
                    STUCK.store(true, std::sync::atomic::Ordering::SeqCst);
                    // the scope would wait for ever for the stuck threads: end the process after reporting
                    let msg = f.clone().unwrap();
                    drop(f);
                    st.violation("stress:stuck".into(), msg, json!({"kind":"stress","rounds":rounds}));
                    return;
                }
            }
        }
    });
    let n = done.load(std::sync::atomic::Ordering::Relaxed);
    match failure.into_inner().unwrap() {
        Some(m) => Err(m),
        None => Ok(n),
    }
}

// ---------------------------------------------------------------- loom
fn loom_models(quick: bool) -> Vec<(&'static str, Option<usize>)> {
    if quick {
        vec![("L1", None), ("L3", None), ("L4", None), ("L6", None), ("L2", Some(3)), ("L7", Some(2)), ("L5", Some(2)), ("L8", Some(3)), ("L9", Some(2)), ("L10", Some(2)), ("L11", Some(2))]
    } else {
        vec![("L1", None), ("L3", None), ("L4", None), ("L6", None), ("L2", Some(4)), ("L7", Some(3)), ("L5", Some(3)), ("L8", Some(4)), ("L9", Some(4)), ("L10", Some(3)), ("L11", Some(3))]
    }
}

fn run_loom(model: &str, bound: Option<usize>) -> Result<String, String> {
    let bin = std::env::var("RQ_BIN_LOOM").unwrap_or_else(|_| machinery_failure("RQ_BIN_LOOM not set (run through ./check)"));
    let mut cmd = crate::common::child_command(&bin);
    cmd.arg(model);
    if let Some(b) = bound {
        cmd.arg(b.to_string());
    }
    let out = cmd.output().unwrap_or_else(|e| machinery_failure(&format!("cannot run {}: {}", bin, e)));
    let so = String::from_utf8_lossy(&out.stdout).to_string();
    let se = String::from_utf8_lossy(&out.stderr).to_string();
    if out.status.success() {
        match so.lines().find(|l| l.starts_with("LOOM-RESULT ")) {
            Some(l) => Ok(l.to_string()),
            None => machinery_failure(&format!("loom model {} gave no result line", model)),
        }
    } else {
        // loom panics / aborts on the first failing execution
        let detail = se.lines().chain(so.lines()).find(|l| l.contains("VIOLATION-DETAIL")).map(|l| l.to_string());
        match detail {
            Some(d) => Err(d.split("VIOLATION-DETAIL:").nth(1).unwrap_or(&d).trim().to_string()),
            None => {
                let tail: String = se.lines().rev().take(12).collect::<Vec<_>>().into_iter().rev().collect::<Vec<_>>().join(" | ");
                // the message of the FIRST panic (the line after "... panicked at <location>:"); it carries no
                // process ids or addresses, so the report is the same in every run
                let lines: Vec<&str> = se.lines().collect();
                let first = lines.iter().position(|l| l.contains("panicked at")).and_then(|i| lines.get(i + 1)).map(|l| l.trim().to_string());
                if let Some(msg) = first {
                    if msg.starts_with("deadlock") {
                        Err(format!("loom found an interleaving in which the threads block for ever (a thread waiting for a plan is never woken, or a lock cycle): {}", msg))
                    } else {
                        Err(format!("loom reported a failing execution: {}", msg))
                    }
                } else if tail.contains("deadlock") || tail.contains("panicked") {
                    Err("loom reported a failing execution".to_string())
                } else {
                    machinery_failure(&format!("loom model {} crashed: status {:?}: {}", model, out.status, tail))
                }
            }
        }
    }
}

pub fn replay(case: &Value) -> Result<(), String> {
    match case["kind"].as_str().unwrap_or("") {
        "history" => replay_history(case),
        "stress" => { let st = Stats::new(); stress(&st, case["rounds"].as_u64().unwrap_or(3000) as usize).map(|_| ()) }
        "pair" => {
            let mut refs = Refs { map: HashMap::new() };
            pair_case(case["k1"].as_u64().unwrap() as u16, case["k2"].as_u64().unwrap() as u16, &mut refs)
        }
        "loom" => run_loom(case["model"].as_str().unwrap(), case["bound"].as_u64().map(|b| b as usize)).map(|_| ()),
        k => Err(format!("unknown kind {}", k)),
    }
}

pub fn run(ctx: &Ctx) -> i32 {
    let st = Stats::new();
    if let Some(spec) = ctx.opt("--pairs") {
        let mut it = spec.split('/');
        let i: usize = it.next().unwrap().parse().unwrap();
        let n: usize = it.next().unwrap().parse().unwrap();
        pairs_child(ctx, &st, i, n);
        return child_emit(&st);
    }
    let models = loom_models(ctx.quick());
    // loom children run concurrently with the (single-threaded, global-cache) history exploration
    std::thread::scope(|sc| {
        let handles: Vec<_> = models
            .iter()
            .map(|&(m, b)| sc.spawn(move || (m, b, run_loom(m, b))))
            .collect();
        // confusable size pairs: one child process per slice (each has its own process-wide cache)
        let slices = 8usize;
        let pair_handles: Vec<_> = (0..slices).map(|i| { let st = &st; sc.spawn(move || run_child_and_merge(ctx, st, "RQ_BIN_RELEASE", "pairs", &["--pairs".to_string(), format!("{}/{}", i, slices)])) }).collect();
        histories(ctx, &st);
        st.note(format!("histories finished after {:.1} s", ctx.elapsed()));
        let rounds = if ctx.quick() { 3000 } else { 30000 };
        match stress(&st, rounds) {
            Ok(n) => { st.count("stress_requests_free_running_threads_not_exhaustive", n); }
            Err(m) => st.violation("stress".into(), m, json!({"kind":"stress","rounds":rounds})),
        }
        for h in pair_handles {
            let _ = h.join();
        }
        st.note(format!("confusable-pair children finished after {:.1} s", ctx.elapsed()));
        for h in handles {
            let (m, b, r) = h.join().unwrap();
            match r {
                Ok(line) => {
                    let get = |key: &str| -> u64 { line.split_whitespace().find_map(|t| t.strip_prefix(&format!("{}=", key)).and_then(|v| v.parse().ok())).unwrap_or(0) };
                    let ex = get("executions");
                    st.state(ex);
                    st.transition(ex);
                    st.trace(ex);
                    st.eval(ex);
                    st.nontriv(get("distinct_final_orders"));
                    st.count("loom_models", 1);
                    st.count("loom_executions", ex);
                    st.count("loom_executions_with_eviction", get("executions_with_eviction"));
                    st.count("loom_distinct_final_orders", get("distinct_final_orders"));
                    st.note(line.clone());
                    st.sample(json!({"loom_model": m, "preemption_bound": b, "result": line}));
                }
                Err(msg) => st.violation(format!("loom:{}:{:?}", m, b), format!("loom model {} (preemption bound {:?}): {}", m, b, msg), json!({"kind":"loom","model":m,"bound":b})),
            }
        }
    });
    st.sample(json!({"kind":"history","seed":"capacity-1 plans","requests":["new1","new2","oldest","most-recently-evicted"],"oracle":"encoder == encoder from a fresh plan; cache snapshot == FIFO model; |plans| <= 64; order duplicate-free and = keys; plan count == key"}));
    finish(ctx, &st, Finish {
        level: "model_checking",
        rule: "schedules: loom explores all interleavings (DPOR; unbounded for L1, L3, L4, L6; preemption-bounded for L2, L5, L7-L11 - see notes; L8, L9, L11 use block sizes on the far side of the 250-symbol back-end threshold, L10 has four threads) of real threads calling the real SourceBlockEncoder::new against the real process-wide cache compiled with loom's Mutex/Arc/lazy_static (scheduling points at every lock, Arc clone/drop and the static's initialisation); in every execution every returned encoder must equal the encoder built from a fresh plan, and after each request and at the end |plans| <= capacity, insertion order is a duplicate-free listing of exactly the stored keys, each plan was generated for its key. histories: breadth-first exploration of request sequences (alphabet new1, new2, new-large (>= 400 symbols), oldest, newest, middle, most-recently-evicted) from 7 seed prefixes around the capacity (incl. caches whose plans are all large and all requested twice), each node re-established by replaying its whole request history on a cleared real global cache, de-duplicated by the cache snapshot; every request runs under a time limit (a call that does not return is a violation); no eviction policy is assumed: only transparency and the invariants are judged; plus all sequences of a fixed length on one continuously living cache; plus every ordered pair of confusable block sizes (Table 2 rows sharing their systematic index, neighbouring rows, sizes padded to the same K') requested one after the other on an empty cache. Beside the exhaustive parts, 6 free-running OS threads issue 3 000 (thorough 30 000) requests each over 6 sizes against references - a monitor for synchronisation outside the primitives loom intercepts; NOT exhaustive, only its failures count. distinct_nontrivial = distinct cache states + distinct final orders.".into(),
        exhaustive: false,
        assumptions: vec!["at most 4 threads; std::sync::Mutex itself and weak-memory effects inside it are trusted (loom models the lock as a scheduling point)".into(), "loom failures abort the child: the model name is the replay (deterministic re-exploration)".into()],
        extra: Map::new(),
        must_be_nonzero: vec!["loom_models", "loom_executions", "loom_executions_with_eviction", "history_states", "history_evictions", "history_cache_hits", "live_history_steps", "pairs/pair_histories"],
    }, replay)
}
