//! C17 — the shared encoding-plan cache is transparent and bounded under concurrency.
//! Schedules: loom (DPOR) over real threads running the real cache code (binary harness-loom/rqloom).
//! Histories: explicit-state exploration of request sequences on the real global cache against a FIFO model.
use crate::codec::*;
use crate::common::*;
use raptorq::verif::{verif_plan_cache_capacity, verif_plan_cache_clear, verif_plan_cache_snapshot};
use raptorq::{SourceBlockEncoder, SourceBlockEncodingPlan};
use serde_json::{json, Map, Value};
use std::collections::{HashMap, HashSet, VecDeque};

fn data_for(k: u16) -> Vec<u8> {
    data_lcg(k as u64, k as usize)
}

fn request(k: u16) -> Result<SourceBlockEncoder, String> {
    guarded(|| SourceBlockEncoder::new(0, &block_cfg(k as u32, 1), &data_for(k))).map_err(|e| format!("SourceBlockEncoder::new(K={}) panicked: {}", k, e))
}

#[derive(Clone, PartialEq, Eq, Hash, Debug)]
struct MState {
    fifo: Vec<u16>,
    last_evicted: Option<u16>,
}

fn model_request(s: &MState, k: u16, cap: usize) -> MState {
    let mut n = s.clone();
    if !n.fifo.contains(&k) {
        if n.fifo.len() >= cap {
            n.last_evicted = Some(n.fifo.remove(0));
        }
        n.fifo.push(k);
    }
    n
}

fn check_snapshot(model: &MState, cap: usize) -> Result<(), String> {
    let (order, plans) = verif_plan_cache_snapshot();
    if plans.len() > cap {
        return Err(format!("cache holds {} plans, capacity {}", plans.len(), cap));
    }
    let mut so = order.clone();
    so.sort_unstable();
    let n = so.len();
    so.dedup();
    if so.len() != n {
        return Err(format!("insertion order {:?} contains a duplicate", order));
    }
    let keys: Vec<u16> = plans.iter().map(|p| p.0).collect();
    if so != keys {
        return Err(format!("insertion order {:?} does not list exactly the keys of the stored plans {:?}", order, keys));
    }
    for (k, c) in &plans {
        if k != c {
            return Err(format!("plan stored for key {} was generated for {} symbols", k, c));
        }
    }
    if order != model.fifo {
        return Err(format!("cache order {:?} differs from the FIFO model {:?}", order, model.fifo));
    }
    Ok(())
}

/// put the real global cache into the model state (clear + requests in FIFO order)
fn establish(s: &MState, cap: usize) -> Result<(), String> {
    verif_plan_cache_clear();
    for &k in &s.fifo {
        request(k)?;
    }
    check_snapshot(s, cap).map_err(|e| format!("establishing state {:?}: {}", s.fifo, e))
}

struct Refs {
    map: HashMap<u16, SourceBlockEncoder>,
}

impl Refs {
    fn get(&mut self, k: u16) -> &SourceBlockEncoder {
        self.map.entry(k).or_insert_with(|| {
            let plan = SourceBlockEncodingPlan::generate(k);
            SourceBlockEncoder::with_encoding_plan(0, &block_cfg(k as u32, 1), &data_for(k), &plan)
        })
    }
}

/// one transition on the real cache from an established state
fn step(s: &MState, k: u16, cap: usize, refs: &mut Refs) -> Result<MState, String> {
    let enc = request(k)?;
    let r = refs.get(k);
    if &enc != r {
        return Err(format!("encoder for K={} obtained through the cache differs from the one built from a fresh plan", k));
    }
    if enc.repair_packets(0, 3) != r.repair_packets(0, 3) || enc.source_packets() != r.source_packets() {
        return Err(format!("packets for K={} differ", k));
    }
    let n = model_request(s, k, cap);
    check_snapshot(&n, cap)?;
    Ok(n)
}

fn alphabet(s: &MState) -> Vec<(&'static str, u16)> {
    let mut v = vec![];
    let mut fresh = (200u16..).filter(|k| !s.fifo.contains(k) && Some(*k) != s.last_evicted);
    v.push(("new1", fresh.next().unwrap()));
    v.push(("new2", fresh.next().unwrap()));
    if let Some(&k) = s.fifo.first() {
        v.push(("oldest", k));
    }
    if let Some(&k) = s.fifo.last() {
        v.push(("newest", k));
    }
    if let Some(k) = s.last_evicted {
        if !s.fifo.contains(&k) {
            v.push(("most-recently-evicted", k));
        }
    }
    if s.fifo.len() > 2 {
        v.push(("middle", s.fifo[s.fifo.len() / 2]));
    }
    v
}

fn seeds(cap: usize) -> Vec<(&'static str, MState)> {
    let mk = |n: usize| MState { fifo: (1..=n as u16).collect(), last_evicted: None };
    let mut after3 = mk(cap);
    for k in [150u16, 151, 152] {
        after3 = model_request(&after3, k, cap);
    }
    vec![("empty", mk(0)), ("capacity-2", mk(cap - 2)), ("capacity-1", mk(cap - 1)), ("capacity", mk(cap)), ("capacity after 3 evictions", after3)]
}

fn histories(ctx: &Ctx, st: &Stats) {
    let cap = verif_plan_cache_capacity();
    let depth = if ctx.quick() { 4 } else { 6 };
    let mut refs = Refs { map: HashMap::new() };
    for (sname, seed) in seeds(cap) {
        let mut seen: HashSet<MState> = HashSet::new();
        let mut queue: VecDeque<(MState, usize, Vec<u16>)> = VecDeque::new();
        seen.insert(seed.clone());
        queue.push_back((seed.clone(), 0, vec![]));
        let (mut states, mut transitions, mut evictions, mut hits) = (0u64, 0u64, 0u64, 0u64);
        while let Some((s, d, path)) = queue.pop_front() {
            states += 1;
            if d == depth {
                continue;
            }
            for (name, k) in alphabet(&s) {
                let mut p2 = path.clone();
                p2.push(k);
                transitions += 1;
                let r = establish(&s, cap).and_then(|_| step(&s, k, cap, &mut refs));
                match r {
                    Err(m) => {
                        st.violation(format!("history:{}:{:?}", sname, p2), format!("seed '{}' ({} plans), requests {:?} (last = {}): {}", sname, seed.fifo.len(), p2, name, m), json!({"kind":"history","seed":seed.fifo,"requests":p2}));
                    }
                    Ok(n) => {
                        if n.fifo.len() == s.fifo.len() && !s.fifo.contains(&k) {
                            evictions += 1;
                        }
                        if s.fifo.contains(&k) {
                            hits += 1;
                        }
                        if seen.insert(n.clone()) {
                            queue.push_back((n, d + 1, p2));
                        }
                    }
                }
            }
        }
        st.state(states);
        st.transition(transitions);
        st.trace(transitions);
        st.eval(transitions);
        st.nontriv(states);
        st.count("history_states", states);
        st.count("history_transitions", transitions);
        st.count("history_evictions", evictions);
        st.count("history_cache_hits", hits);
        st.note(format!("histories from seed '{}': {} distinct cache states, {} transitions (depth {}), {} evictions, {} hits", sname, states, transitions, depth, evictions, hits));
    }
    // un-deduplicated short sequences on one continuously living cache (no re-establishing in between)
    let keys = [1u16, 2, 300, 301];
    let n = keys.len();
    let len = if ctx.quick() { 4 } else { 6 };
    let mut count = 0u64;
    for code in 0..(n as u64).pow(len as u32) {
        let base = MState { fifo: (1..=(cap as u16 - 1)).collect(), last_evicted: None };
        if let Err(m) = establish(&base, cap) {
            st.violation("history:establish".into(), m, json!({"kind":"history","seed":base.fifo,"requests":[]}));
            break;
        }
        let mut s = base.clone();
        let mut c = code;
        let mut reqs = vec![];
        for _ in 0..len {
            let k = keys[(c % n as u64) as usize];
            c /= n as u64;
            reqs.push(k);
            count += 1;
            match step(&s, k, cap, &mut refs) {
                Ok(ns) => s = ns,
                Err(m) => {
                    st.violation(format!("history:live:{:?}", reqs), format!("cache pre-filled with capacity-1 plans, requests {:?}: {}", reqs, m), json!({"kind":"history","seed":base.fifo,"requests":reqs}));
                    break;
                }
            }
        }
        if code % 4 != 0 {
            continue;
        }
    }
    st.eval(count);
    st.trace(count);
    st.count("live_history_steps", count);
    verif_plan_cache_clear();
}

fn replay_history(case: &Value) -> Result<(), String> {
    let cap = verif_plan_cache_capacity();
    let seed: Vec<u16> = case["seed"].as_array().unwrap().iter().map(|x| x.as_u64().unwrap() as u16).collect();
    let reqs: Vec<u16> = case["requests"].as_array().unwrap().iter().map(|x| x.as_u64().unwrap() as u16).collect();
    let mut s = MState { fifo: seed, last_evicted: None };
    let mut refs = Refs { map: HashMap::new() };
    establish(&s, cap)?;
    for k in reqs {
        s = step(&s, k, cap, &mut refs)?;
    }
    Ok(())
}

// ---------------------------------------------------------------- loom
fn loom_models(quick: bool) -> Vec<(&'static str, Option<usize>)> {
    if quick {
        vec![("L1", None), ("L3", None), ("L4", None), ("L6", None), ("L2", Some(3)), ("L7", Some(2)), ("L5", Some(2)), ("L8", Some(3)), ("L9", Some(2)), ("L10", Some(2)), ("L11", Some(2))]
    } else {
        vec![("L1", None), ("L3", None), ("L4", None), ("L6", None), ("L2", Some(4)), ("L7", Some(3)), ("L5", Some(3)), ("L8", Some(4)), ("L9", Some(4)), ("L10", Some(3)), ("L11", Some(3))]
    }
}

fn run_loom(model: &str, bound: Option<usize>) -> Result<String, String> {
    let bin = std::env::var("RQ_BIN_LOOM").unwrap_or_else(|_| machinery_failure("RQ_BIN_LOOM not set (run through ./check)"));
    let mut cmd = crate::common::child_command(&bin);
    cmd.arg(model);
    if let Some(b) = bound {
        cmd.arg(b.to_string());
    }
    let out = cmd.output().unwrap_or_else(|e| machinery_failure(&format!("cannot run {}: {}", bin, e)));
    let so = String::from_utf8_lossy(&out.stdout).to_string();
    let se = String::from_utf8_lossy(&out.stderr).to_string();
    if out.status.success() {
        match so.lines().find(|l| l.starts_with("LOOM-RESULT ")) {
            Some(l) => Ok(l.to_string()),
            None => machinery_failure(&format!("loom model {} gave no result line", model)),
        }
    } else {
        // loom panics / aborts on the first failing execution
        let detail = se.lines().chain(so.lines()).find(|l| l.contains("VIOLATION-DETAIL")).map(|l| l.to_string());
        match detail {
            Some(d) => Err(d.split("VIOLATION-DETAIL:").nth(1).unwrap_or(&d).trim().to_string()),
            None => {
                let tail: String = se.lines().rev().take(12).collect::<Vec<_>>().into_iter().rev().collect::<Vec<_>>().join(" | ");
                // the message of the FIRST panic (the line after "... panicked at <location>:"); it carries no
                // process ids or addresses, so the report is the same in every run
                let lines: Vec<&str> = se.lines().collect();
                let first = lines.iter().position(|l| l.contains("panicked at")).and_then(|i| lines.get(i + 1)).map(|l| l.trim().to_string());
                if let Some(msg) = first {
                    if msg.starts_with("deadlock") {
                        Err(format!("loom found an interleaving in which the threads block for ever (a thread waiting for a plan is never woken, or a lock cycle): {}", msg))
                    } else {
                        Err(format!("loom reported a failing execution: {}", msg))
                    }
                } else if tail.contains("deadlock") || tail.contains("panicked") {
                    Err("loom reported a failing execution".to_string())
                } else {
                    machinery_failure(&format!("loom model {} crashed: status {:?}: {}", model, out.status, tail))
                }
            }
        }
    }
}

pub fn replay(case: &Value) -> Result<(), String> {
    match case["kind"].as_str().unwrap_or("") {
        "history" => replay_history(case),
        "loom" => run_loom(case["model"].as_str().unwrap(), case["bound"].as_u64().map(|b| b as usize)).map(|_| ()),
        k => Err(format!("unknown kind {}", k)),
    }
}

pub fn run(ctx: &Ctx) -> i32 {
    let st = Stats::new();
    let models = loom_models(ctx.quick());
    // loom children run concurrently with the (single-threaded, global-cache) history exploration
    std::thread::scope(|sc| {
        let handles: Vec<_> = models
            .iter()
            .map(|&(m, b)| sc.spawn(move || (m, b, run_loom(m, b))))
            .collect();
        histories(ctx, &st);
        for h in handles {
            let (m, b, r) = h.join().unwrap();
            match r {
                Ok(line) => {
                    let get = |key: &str| -> u64 { line.split_whitespace().find_map(|t| t.strip_prefix(&format!("{}=", key)).and_then(|v| v.parse().ok())).unwrap_or(0) };
                    let ex = get("executions");
                    st.state(ex);
                    st.transition(ex);
                    st.trace(ex);
                    st.eval(ex);
                    st.nontriv(get("distinct_final_orders"));
                    st.count("loom_models", 1);
                    st.count("loom_executions", ex);
                    st.count("loom_executions_with_eviction", get("executions_with_eviction"));
                    st.count("loom_distinct_final_orders", get("distinct_final_orders"));
                    st.note(line.clone());
                    st.sample(json!({"loom_model": m, "preemption_bound": b, "result": line}));
                }
                Err(msg) => st.violation(format!("loom:{}:{:?}", m, b), format!("loom model {} (preemption bound {:?}): {}", m, b, msg), json!({"kind":"loom","model":m,"bound":b})),
            }
        }
    });
    st.sample(json!({"kind":"history","seed":"capacity-1 plans","requests":["new1","new2","oldest","most-recently-evicted"],"oracle":"encoder == encoder from a fresh plan; cache snapshot == FIFO model; |plans| <= 64; order duplicate-free and = keys; plan count == key"}));
    finish(ctx, &st, Finish {
        level: "model_checking",
        rule: "schedules: loom explores all interleavings (DPOR; unbounded for L1, L3, L4, L6; preemption-bounded for L2, L5, L7-L11 - see notes; L8, L9, L11 use block sizes on the far side of the 250-symbol back-end threshold, L10 has four threads) of real threads calling the real SourceBlockEncoder::new against the real process-wide cache compiled with loom's Mutex/Arc/lazy_static (scheduling points at every lock, Arc clone/drop and the static's initialisation); in every execution every returned encoder must equal the encoder built from a fresh plan, and after each request and at the end |plans| <= capacity, insertion order is a duplicate-free listing of exactly the stored keys, each plan was generated for its key. histories: breadth-first exploration of request sequences (alphabet new1, new2, oldest, newest, middle, most-recently-evicted; 5 seeds around the capacity) on the real global cache against a FIFO model, de-duplicated by the cache snapshot (= the whole state), plus all sequences of a fixed length on one continuously living cache. distinct_nontrivial = distinct cache states + distinct final orders.".into(),
        exhaustive: false,
        assumptions: vec!["at most 4 threads; std::sync::Mutex itself and weak-memory effects inside it are trusted (loom models the lock as a scheduling point)".into(), "loom failures abort the child: the model name is the replay (deterministic re-exploration)".into()],
        extra: Map::new(),
        must_be_nonzero: vec!["loom_models", "loom_executions", "loom_executions_with_eviction", "history_states", "history_evictions", "history_cache_hits", "live_history_steps"],
    }, replay)
}
