//! helpers around the real codec API shared by several properties
use crate::common::*;
use crate::rfcref::{self, Params};
use crate::tables::TABLE2;
use raptorq::{EncodingPacket, ObjectTransmissionInformation as Oti, PayloadId, SourceBlockDecoder, SourceBlockEncoder};

pub const SMALL_LADDER: [u32; 18] = [1, 2, 5, 9, 10, 11, 12, 13, 18, 19, 20, 26, 46, 48, 49, 50, 55, 60];
pub const MID_EXTRA: [u32; 7] = [101, 248, 249, 257, 500, 1000, 1050];
pub const LARGE_EXTRA: [u32; 6] = [10899, 20778, 30654, 40398, 50511, 56403];

pub fn small_ladder() -> Vec<u32> {
    let mut v = SMALL_LADDER.to_vec();
    v.push(101);
    v
}
pub fn mid_ladder() -> Vec<u32> {
    let mut v = SMALL_LADDER.to_vec();
    v.extend_from_slice(&MID_EXTRA);
    v
}
pub fn large_ladder() -> Vec<u32> {
    let mut v = mid_ladder();
    v.extend_from_slice(&LARGE_EXTRA);
    v
}

/// all 477 K = K' plus, for each, the smallest K mapping to it
pub fn all_sizes_with_minpad() -> Vec<u32> {
    let mut v = vec![];
    for i in 0..TABLE2.len() {
        v.push(rfcref::min_k_for_index(i));
        v.push(TABLE2[i].0);
    }
    v.sort_unstable();
    v.dedup();
    v
}

pub fn block_cfg(k: u32, t: u16) -> Oti {
    Oti::new(k as u64 * t as u64, t, 1, 1, 1)
}

pub fn split_symbols(data: &[u8], t: usize) -> Vec<Vec<u8>> {
    data.chunks(t).map(|c| c.to_vec()).collect()
}

pub fn far_esis(k: u32) -> Vec<u32> {
    vec![(1 << 16) + k, 1 << 23, (1 << 24) - 2, (1 << 24) - 1]
}

pub fn packet(sbn: u8, esi: u32, data: Vec<u8>) -> EncodingPacket {
    EncodingPacket::new(PayloadId::new(sbn, esi), data)
}

/// reference packet for ESI (source or repair) of a block with reference intermediate symbols C
pub fn ref_symbol(p: &Params, k: u32, c: &[Vec<u8>], esi: u32) -> Vec<u8> {
    let isi = if esi < k { esi } else { esi + (p.Kp - k) };
    rfcref::enc_symbol(p, c, isi)
}

pub fn isi_of(p: &Params, k: u32, esi: u32) -> u32 {
    if esi < k {
        esi
    } else {
        esi + (p.Kp - k)
    }
}

/// the single repair packet with ESI `esi` (>= K) from a block encoder
pub fn repair_packet(enc: &SourceBlockEncoder, k: u32, esi: u32) -> EncodingPacket {
    let mut v = enc.repair_packets(esi - k, 1);
    v.pop().unwrap()
}

pub fn new_block_decoder(k: u32, t: u16, sparse_threshold: Option<u32>) -> SourceBlockDecoder {
    let cfg = block_cfg(k, t);
    let mut d = SourceBlockDecoder::new(0, &cfg, k as u64 * t as u64);
    if let Some(th) = sparse_threshold {
        d.verif_set_sparse_threshold(th);
    }
    d
}

pub fn data_named(name: &str, len: usize, seed: u64) -> Vec<u8> {
    match name {
        "pos" => data_pos(len),
        "ff" => data_ff(len),
        "lcg" => data_lcg(seed, len),
        _ => panic!("unknown data pattern {}", name),
    }
}
