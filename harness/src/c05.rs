//! C05 — partitioning and packet layout follow RFC 6330 4.4.1.2.
use crate::common::*;
use crate::rfcref;
use raptorq::{calculate_block_offsets, partition, Decoder, Encoder, ObjectTransmissionInformation as Oti};
use serde_json::{json, Map, Value};
use std::collections::BTreeMap;

fn check_partition(i: u32, j: u32) -> Result<(), String> {
    let got = guarded(|| partition(i, j)).map_err(|e| format!("partition({}, {}) panicked: {}", i, j, e))?;
    let w = rfcref::partition(i as u64, j as u64);
    let want = (w.0 as u32, w.1 as u32, w.2 as u32, w.3 as u32);
    if got != want {
        return Err(format!("partition({}, {}) = {:?}, RFC Partition[I,J] = {:?}", i, j, got, want));
    }
    Ok(())
}

/// full layout check of one configuration; `decode`: also invert the layout through a Decoder
fn check_config(f: u64, t: u16, z: u8, n: u16, al: u8, decode: bool) -> Result<&'static str, String> {
    let data = data_pos(f as usize);
    let cfg = guarded(|| Oti::new(f, t, z, n, al)).map_err(|e| format!("({},{},{},{},{}): valid configuration refused: {}", f, t, z, n, al, e))?;
    let lay = rfcref::layout(f, t as u64, z as u64, n as u64, al as u64);
    // block offsets
    let offs = guarded(|| calculate_block_offsets(&data, &cfg)).map_err(|e| format!("({},{},{},{},{}): calculate_block_offsets panicked: {}", f, t, z, n, al, e))?;
    let want_offs: Vec<(usize, usize)> = lay.iter().map(|b| (b.start as usize, b.end as usize)).collect();
    if offs != want_offs {
        return Err(format!("({},{},{},{},{}): block offsets {:?}, reference {:?}", f, t, z, n, al, offs, want_offs));
    }
    let enc = guarded(|| Encoder::new(&data, cfg)).map_err(|e| format!("({},{},{},{},{}): Encoder::new panicked: {}", f, t, z, n, al, e))?;
    let pk = guarded(|| enc.get_encoded_packets(0)).map_err(|e| format!("({},{},{},{},{}): get_encoded_packets panicked: {}", f, t, z, n, al, e))?;
    let total: usize = lay.iter().map(|b| b.K as usize).sum();
    if pk.len() != total {
        return Err(format!("({},{},{},{},{}): {} source packets, reference {}", f, t, z, n, al, pk.len(), total));
    }
    if enc.get_block_encoders().len() != lay.len() {
        return Err(format!("({},{},{},{},{}): {} blocks, reference {}", f, t, z, n, al, enc.get_block_encoders().len(), lay.len()));
    }
    let mut i = 0;
    let mut pad_bytes = 0usize;
    for b in &lay {
        for esi in 0..b.K {
            let x = &pk[i];
            i += 1;
            if x.payload_id().source_block_number() != b.sbn || x.payload_id().encoding_symbol_id() != esi {
                return Err(format!("({},{},{},{},{}): packet {} has id ({}, {}), reference ({}, {})", f, t, z, n, al, i - 1, x.payload_id().source_block_number(), x.payload_id().encoding_symbol_id(), b.sbn, esi));
            }
            if x.data().len() != t as usize {
                return Err(format!("({},{},{},{},{}): packet ({}, {}) has {} payload bytes, T = {}", f, t, z, n, al, b.sbn, esi, x.data().len(), t));
            }
            for (byte, o) in b.symbols[esi as usize].iter().enumerate() {
                let want = match o {
                    Some(off) => data[*off as usize],
                    None => {
                        pad_bytes += 1;
                        0
                    }
                };
                if x.data()[byte] != want {
                    return Err(format!("({},{},{},{},{}): packet (SBN {}, ESI {}) byte {} = {}, reference layout says {} ({})", f, t, z, n, al, b.sbn, esi, byte, x.data()[byte], want, match o { Some(off) => format!("object offset {}", off), None => "zero padding".into() }));
                }
            }
        }
    }
    if decode {
        let out = guarded(|| {
            let mut d = Decoder::new(cfg);
            let mut r = None;
            // reverse order, so that nothing depends on arrival order
            for x in pk.iter().rev() {
                r = d.decode(x.clone());
            }
            r
        })
        .map_err(|e| format!("({},{},{},{},{}): decoding the source packets panicked: {}", f, t, z, n, al, e))?;
        if out.as_deref() != Some(&data[..]) {
            return Err(format!("({},{},{},{},{}): decoder does not invert the layout (got {:?} bytes)", f, t, z, n, al, out.map(|o| o.len())));
        }
    }
    Ok(if pad_bytes > 0 { "padded" } else { "exact" })
}

pub fn replay(case: &Value) -> Result<(), String> {
    let g = |n: &str| case[n].as_u64().unwrap_or(0);
    match case["kind"].as_str().unwrap_or("") {
        "partition" => check_partition(g("I") as u32, g("J") as u32),
        "config" => check_config(g("F"), g("T") as u16, g("Z") as u8, g("N") as u16, g("Al") as u8, case["decode"].as_bool().unwrap_or(true)).map(|_| ()),
        k => Err(format!("unknown kind {}", k)),
    }
}

pub fn box_configs(ts: &[u16], max_kt: u64, max_z: u64, max_al: u16) -> Vec<(u64, u16, u8, u16, u8)> {
    let mut v = vec![];
    for &t in ts {
        for al in 1..=max_al.min(t) {
            if t % al != 0 {
                continue;
            }
            for n in 1..=(t / al) {
                for f in 1..=(max_kt * t as u64) {
                    let kt = (f + t as u64 - 1) / t as u64;
                    for z in 1..=kt.min(max_z) {
                        v.push((f, t, z as u8, n, al as u8));
                    }
                }
            }
        }
    }
    v
}

/// wide shapes: larger T (many sub-blocks, several alignments), more symbols and blocks, F only at the
/// remainders that matter (exact multiple, 1..2 bytes short, half a symbol, one byte into the last symbol)
pub fn wide_configs(ts: &[u16], max_kt: u64, max_z: u64) -> Vec<(u64, u16, u8, u16, u8)> {
    let mut v = vec![];
    for &t in ts {
        for al in 1..=t {
            if t % al != 0 || al > 255 {
                continue;
            }
            for n in 1..=(t / al) {
                for kt in 1..=max_kt {
                    let mut rs: Vec<u64> = vec![0, 1, 2, t as u64 / 2, t as u64 - 1];
                    rs.retain(|&r| r < t as u64);
                    rs.sort_unstable();
                    rs.dedup();
                    for r in rs {
                        let f = kt * t as u64 - r;
                        if f == 0 {
                            continue;
                        }
                        for z in 1..=kt.min(max_z) {
                            v.push((f, t, z as u8, n, al as u8));
                        }
                    }
                }
            }
        }
    }
    v
}

pub fn run(ctx: &Ctx) -> i32 {
    let st = Stats::new();
    // Partition[I, J]
    par_for(2049, |i| {
        for j in 1..=255u32 {
            st.eval(1);
            if let Err(m) = check_partition(i as u32, j) {
                st.violation(format!("partition:{}:{}", i, j), m, json!({"kind":"partition","I":i,"J":j}));
            }
        }
    });
    for k in 1..=255u32 {
        for d in [-1i64, 0, 1] {
            let i = (56403 * k as i64 + d) as u32;
            for j in [1u32, 2, 3, 7, 254, 255, k] {
                st.eval(1);
                if let Err(m) = check_partition(i, j) {
                    st.violation(format!("partition:{}:{}", i, j), m, json!({"kind":"partition","I":i,"J":j}));
                }
            }
        }
    }
    st.set_counter("partition_pairs", 2049 * 255 + 255 * 3 * 7);
    // configuration box
    let ts: Vec<u16> = if ctx.quick() { (1..=10).collect() } else { (1..=12).chain([16, 24, 32]).collect() };
    let mut cfgs = box_configs(&ts, 8, 4, 8);
    // second box: more symbols and more blocks at small T
    cfgs.extend(box_configs(&[1, 2, 3, 4, 6], 14, 7, 8));
    // third box: wide symbols (up to 64 sub-blocks), up to 16 symbols and 9 blocks
    let wide_ts: Vec<u16> = if ctx.quick() { vec![12, 13, 15, 16, 20, 21, 24, 27, 30, 32, 36, 48, 64] } else { vec![12, 13, 14, 15, 16, 18, 20, 21, 24, 27, 28, 30, 32, 36, 40, 48, 60, 64] };
    cfgs.extend(wide_configs(&wide_ts, if ctx.quick() { 12 } else { 16 }, if ctx.quick() { 7 } else { 9 }));
    cfgs.sort_unstable();
    cfgs.dedup();
    par_for_chunk(cfgs.len(), 64, |i| {
        let (f, t, z, n, al) = cfgs[i];
        st.eval(1);
        match check_config(f, t, z, n, al, true) {
            Ok(kind) => {
                let mut l: BTreeMap<&'static str, u64> = BTreeMap::new();
                l.insert(kind, 1);
                if z > 1 { l.insert("Z>1", 1); }
                if n > 1 { l.insert("N>1", 1); }
                if z > 1 && n > 1 && kind == "padded" { l.insert("Z>1,N>1,padded", 1); }
                st.merge_counters(&l);
                if z > 1 || n > 1 { st.nontriv(1); }
            }
            Err(m) => st.violation(format!("config:{}:{}:{}:{}:{}", f, t, z, n, al), m, json!({"kind":"config","F":f,"T":t,"Z":z,"N":n,"Al":al,"decode":true})),
        }
    });
    st.set_counter("box_configurations", cfgs.len() as u64);
    // big shapes, encode-only (quick: a subset)
    let mut big: Vec<(u64, u16, u8, u16, u8)> = vec![];
    let kts: &[u64] = if ctx.quick() { &[255, 257, 1000] } else { &[255, 256, 257, 1000, 56404, 112807] };
    for &kt in kts {
        for z in [2u8, 3, 7, 255] {
            if kt.div_ceil(z as u64) > 56403 || (z as u64) > kt { continue; }
            for (t, n, al) in [(1u16, 1u16, 1u8), (4, 2, 1), (6, 3, 2), (12, 3, 4), (5, 2, 1)] {
                for fr in [0u64, 1, t as u64 - 1] {
                    let f = kt * t as u64 - fr.min(t as u64 - 1);
                    if (f + t as u64 - 1) / t as u64 != kt { continue; }
                    big.push((f, t, z, n, al));
                }
            }
        }
    }
    big.sort_unstable();
    big.dedup();
    par_for(big.len(), |i| {
        let (f, t, z, n, al) = big[i];
        st.eval(1);
        match check_config(f, t, z, n, al, false) {
            Ok(_) => { st.count("big_shapes", 1); st.nontriv(1); }
            Err(m) => st.violation(format!("config:{}:{}:{}:{}:{}", f, t, z, n, al), m, json!({"kind":"config","F":f,"T":t,"Z":z,"N":n,"Al":al,"decode":false})),
        }
    });
    let l = rfcref::layout(23, 4, 3, 2, 2);
    st.sample(json!({"config":{"F":23,"T":4,"Z":3,"N":2,"Al":2},"reference layout (SBN, K, symbol 0 -> object offsets)": l.iter().map(|b| json!([b.sbn, b.K, format!("{:?}", b.symbols[0])])).collect::<Vec<_>>() }));
    st.sample(json!({"partition":[10,3],"reference":format!("{:?}", rfcref::partition(10,3))}));
    finish(ctx, &st, Finish {
        level: "exploration",
        rule: format!("every (F,T,Z,N,Al) with T in {:?}, Al|T (Al<=8), 1<=N<=T/Al, ceil(F/T)<=8, 1<=Z<=min(ceil(F/T),4) plus T in {{1,2,3,4,6}} with ceil(F/T)<=14, Z<=7, plus wide symbols T in {:?} (every Al|T, every N<=T/Al) with ceil(F/T)<={}, Z<={}, F = ceil(F/T)*T - {{0,1,2,T/2,T-1}}; data pos: packet count, IDs (SBN ascending, ESI 0..K-1), payload length T, every payload byte against the reference (SBN,ESI,byte)->object offset/PAD map, calculate_block_offsets, and a Decoder fed the packets in reverse order must return the object; partition(I,J) for all I<=2048, J<=255 and I=56403k+-1; encode-only layouts for {} big shapes. distinct_nontrivial = configurations with Z>1 or N>1.", ts, wide_ts, if ctx.quick() { 12 } else { 16 }, if ctx.quick() { 7 } else { 9 }, big.len()),
        exhaustive: false,
        assumptions: vec!["reference layout written from RFC 6330 4.4.1.2 (rfcref::layout), self-checked to be a bijection object offset <-> (SBN,ESI,byte)".into()],
        extra: Map::new(),
        must_be_nonzero: vec!["partition_pairs", "box_configurations", "padded", "exact", "Z>1", "N>1", "Z>1,N>1,padded", "big_shapes"],
    }, replay)
}
