//! C07 digest workload. Shared verbatim by the std harness and the no_std harness (included by path), so it
//! depends on nothing but raptorq (public API + verif hooks) and std.
//!
//! For one build of the library it enumerates the configurations that exist in that build
//! (kernel family x sparse threshold x plan mode) and prints one line per (configuration, item):
//!   D <build>/<kernel>/<threshold>/<mode> <item> <digest>
//! where the digest covers all produced packets, or the decode outcome and decoded bytes.
use raptorq::verif::verif_kernels as vk;
use raptorq::{EncodingPacket, ObjectTransmissionInformation as Oti, SourceBlockDecoder, SourceBlockEncoder, SourceBlockEncodingPlan};

pub fn fnv64(h: u64, data: &[u8]) -> u64 {
    let mut h = h;
    for &b in data {
        h ^= b as u64;
        h = h.wrapping_mul(0x100000001b3);
    }
    h
}

pub fn poly64(h: u64, data: &[u8]) -> u64 {
    let mut h = h ^ (data.len() as u64);
    for &b in data {
        h = h.rotate_left(5) ^ (b as u64);
        h = h.wrapping_mul(0xff51afd7ed558ccd);
    }
    h ^ (h >> 33)
}

fn digest_packets(p: &[EncodingPacket]) -> String {
    let mut a = 0xcbf29ce484222325u64;
    let mut b = 0x9E3779B97F4A7C15u64;
    for x in p {
        let s = x.serialize();
        a = fnv64(a, &s);
        b = poly64(b, &s);
    }
    format!("{:016x}{:016x}", a, b)
}

fn digest_bytes(o: &Option<Vec<u8>>) -> String {
    match o {
        None => "None".to_string(),
        Some(d) => format!("Some:{:016x}{:016x}", fnv64(0xcbf29ce484222325, d), poly64(0x9E3779B97F4A7C15, d)),
    }
}

pub fn data_pos(len: usize) -> Vec<u8> {
    (0..len).map(|i| (1 + (37 * i + 11) % 251) as u8).collect()
}

pub fn data_lcg(seed: u64, len: usize) -> Vec<u8> {
    let mut x = seed.wrapping_mul(6364136223846793005).wrapping_add(1442695040888963407);
    (0..len)
        .map(|_| {
            x = x.wrapping_mul(6364136223846793005).wrapping_add(1442695040888963407);
            (x >> 56) as u8
        })
        .collect()
}

pub fn kind_name(k: u8) -> &'static str {
    match k {
        vk::AUTO => "auto",
        vk::AVX512 => "avx512",
        vk::AVX2 => "avx2",
        vk::SSSE3 => "ssse3",
        _ => "portable",
    }
}

pub fn kinds(all: bool) -> Vec<u8> {
    let mut v = vec![vk::AUTO];
    for k in [vk::AVX512, vk::AVX2, vk::SSSE3, vk::FALLBACK] {
        if vk::supported(k) && (all || k == vk::FALLBACK || k == vk::AVX2) {
            v.push(k);
        }
    }
    v
}

pub fn thresholds() -> [(u32, &'static str); 3] {
    [(0, "sparse"), (250, "250"), (u32::MAX, "dense")]
}

fn cfg(k: u32, t: u16) -> Oti {
    Oti::new(k as u64 * t as u64, t, 1, 1, 1)
}

fn far(k: u32) -> [u32; 4] {
    [(1 << 16) + k, 1 << 23, (1 << 24) - 2, (1 << 24) - 1]
}

fn all_packets(enc: &SourceBlockEncoder, k: u32) -> Vec<EncodingPacket> {
    let mut v = enc.source_packets();
    v.extend(enc.repair_packets(0, 16));
    for e in far(k) {
        v.extend(enc.repair_packets(e - k, 1));
    }
    v
}

/// erasure patterns: list of ESIs fed to the decoder (in this order)
pub fn patterns(k: u32, special: &[(u32, Vec<u32>)]) -> Vec<(String, Vec<u32>)> {
    let mut v: Vec<(String, Vec<u32>)> = vec![];
    v.push(("all-source".into(), (0..k).collect()));
    v.push(("erase0".into(), (1..k + 1).collect()));
    let e3: Vec<u32> = (0..k).filter(|&e| e != 0 && e != k / 2 && e != k - 1).chain(k..k + 3).collect();
    v.push(("erase3".into(), e3));
    v.push(("repair-only".into(), (k..2 * k + 2).collect()));
    v.push(("mixed-reverse".into(), (k / 2..k + k / 2 + 2).rev().collect()));
    for (i, (sk, esis)) in special.iter().enumerate() {
        if *sk == k {
            v.push((format!("special{}", i), esis.clone()));
        }
    }
    v
}

pub struct Item {
    pub k: u32,
    pub t: u16,
    pub data: &'static str,
}

pub fn item_key(it: &Item) -> String {
    format!("K{}:T{}:{}", it.k, it.t, it.data)
}

fn item_data(it: &Item) -> Vec<u8> {
    let len = it.k as usize * it.t as usize;
    if it.data == "pos" {
        data_pos(len)
    } else {
        data_lcg(it.k as u64 * 31 + it.t as u64, len)
    }
}

pub fn parse_special(s: &str) -> Vec<(u32, Vec<u32>)> {
    // "10:1,2,3;10:4,5"
    s.split(';')
        .filter(|x| !x.is_empty())
        .map(|x| {
            let mut it = x.split(':');
            let k: u32 = it.next().unwrap().parse().unwrap();
            let v: Vec<u32> = it.next().unwrap_or("").split(',').filter(|y| !y.is_empty()).map(|y| y.parse().unwrap()).collect();
            (k, v)
        })
        .collect()
}

pub fn parse_items(s: &str) -> Vec<Item> {
    // "K:T:data,K:T:data"
    s.split(',')
        .filter(|x| !x.is_empty())
        .map(|x| {
            let p: Vec<&str> = x.split(':').collect();
            Item { k: p[0].parse().unwrap(), t: p[1].parse().unwrap(), data: if p[2] == "pos" { "pos" } else { "lcg" } }
        })
        .collect()
}

/// child entry: args = ["--items", "K:T:data,...", "--special", "...", ("--all-kernels")]
pub fn child_main(tag: &str, args: &[String]) {
    let mut items = vec![];
    let mut special = vec![];
    let mut all = false;
    let mut single = false;
    let mut suffix = String::new();
    let mut only: Vec<String> = vec![];
    let mut i = 0;
    while i < args.len() {
        match args[i].as_str() {
            "--items" => {
                i += 1;
                items = parse_items(&args[i]);
            }
            "--special" => {
                i += 1;
                special = parse_special(&args[i]);
            }
            "--all-kernels" => all = true,
            "--single-thread" => single = true,
            "--tag-suffix" => {
                i += 1;
                suffix = args[i].clone();
            }
            "--only-kernels" => {
                i += 1;
                only = args[i].split(',').map(|x| x.to_string()).collect();
            }
            _ => {}
        }
        i += 1;
    }
    // items are independent: spread over threads
    let n = if single { 1 } else { std::thread::available_parallelism().map(|n| n.get()).unwrap_or(4) };
    let tag_owned = format!("{}{}", tag, suffix);
    let tag: &str = &tag_owned;
    // the forced-kernel switch is process-global: parallelise over items inside one kernel at a time
    let chunks: Vec<Vec<Item>> = {
        let mut c: Vec<Vec<Item>> = (0..n).map(|_| vec![]).collect();
        for (i, it) in items.into_iter().enumerate() {
            c[i % n].push(it);
        }
        c
    };
    let lines = std::sync::Mutex::new(Vec::<String>::new());
    // run_items forces kernels itself, so run the kernel loop outside: call once per kernel family
    for kind in kinds(all || !only.is_empty()) {
        if !only.is_empty() && !only.iter().any(|k| k == kind_name(kind)) {
            continue;
        }
        std::thread::scope(|s| {
            for ch in &chunks {
                let lines = &lines;
                let special = &special;
                s.spawn(move || {
                    let mut out = vec![];
                    run_items_one_kernel(tag, ch, kind, special, &mut out);
                    lines.lock().unwrap().extend(out);
                });
            }
        });
    }
    vk::force(vk::AUTO);
    let l = lines.into_inner().unwrap();
    for x in &l {
        println!("{}", x);
    }
    println!("DIGEST-DONE {} lines", l.len());
}

pub fn run_items_one_kernel(tag: &str, items: &[Item], kind: u8, special: &[(u32, Vec<u32>)], out: &mut Vec<String>) {
    vk::force(kind);
    // same body as run_items for a single kernel
    for it in items {
        let data = item_data(it);
        let c = cfg(it.k, it.t);
        let key = item_key(it);
        let mut encs: Vec<(String, SourceBlockEncoder)> = vec![];
        encs.push(("250/new-cold".into(), SourceBlockEncoder::new(0, &c, &data)));
        encs.push(("250/new-warm".into(), SourceBlockEncoder::new(0, &c, &data)));
        for (th, tn) in thresholds() {
            let plan = SourceBlockEncodingPlan::verif_generate(it.k as u16, th);
            encs.push((format!("{}/plan", tn), SourceBlockEncoder::with_encoding_plan(0, &c, &data, &plan)));
            encs.push((format!("{}/unplanned", tn), SourceBlockEncoder::verif_new_unplanned(0, &c, &data, th)));
        }
        let public_plan = SourceBlockEncodingPlan::generate(it.k as u16);
        encs.push(("250/public-plan".into(), SourceBlockEncoder::with_encoding_plan(0, &c, &data, &public_plan)));
        for (name, e) in &encs {
            let p = all_packets(e, it.k);
            out.push(format!("D {}/{}/{} enc:{} {}", tag, kind_name(kind), name, key, digest_packets(&p)));
        }
        let e0 = &encs[0].1;
        let src = e0.source_packets();
        for (pname, esis) in patterns(it.k, special) {
            let pk: Vec<EncodingPacket> = esis.iter().map(|&e| if e < it.k { src[e as usize].clone() } else { e0.repair_packets(e - it.k, 1).pop().unwrap() }).collect();
            for (th, tn) in thresholds() {
                let mut d = SourceBlockDecoder::new(0, &c, it.k as u64 * it.t as u64);
                d.verif_set_sparse_threshold(th);
                let mut r = None;
                for p in pk.iter() {
                    r = d.decode(std::iter::once(p.clone()));
                }
                out.push(format!("D {}/{}/{}/decode dec:{}:{} {}", tag, kind_name(kind), tn, key, pname, digest_bytes(&r)));
            }
        }
    }
}
