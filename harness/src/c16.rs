//! C16 — dense and sparse binary matrices implement the same abstract matrix.
//! Model: Vec<Vec<Cell>> (0, 1, Either) plus the bookkeeping the interface's preconditions need.
//! (1) bounded exploration of all admissible operation sequences from seed states, every operation applied
//!     to a real DenseBinaryMatrix, a real SparseBinaryMatrix and the model; exact de-duplication on the
//!     real objects' own Hash/Eq. (2) a LockstepMatrix (implements the crate's BinaryMatrix trait, forwards
//!     every call to dense + sparse + model and compares) plugged into the real solver.
use crate::codec::*;
use crate::common::*;
use crate::rfcref;
use raptorq::verif as rq;
use raptorq::verif::{BinaryMatrix, BinaryOctetVec, DenseBinaryMatrix, Octet, OctetIter, SparseBinaryMatrix};
use raptorq::SymbolSlab;
use serde_json::{json, Map, Value};
use std::cell::RefCell;
use std::collections::HashMap;
use std::hash::{Hash, Hasher};

const Z: u8 = 0;
const O: u8 = 1;
const E: u8 = 2; // either: undefined by the interface (left of start_col after a partial row addition)

#[derive(Clone, Hash, PartialEq, Eq, Debug)]
pub struct Model {
    h: usize,
    w: usize,
    cells: Vec<Vec<u8>>,
    nd: usize, // number of dense tail columns of the sparse representation
    indexed: bool,
    col_valid: Vec<bool>, // column index still usable for this (logical) column
}

fn xor(a: u8, b: u8) -> u8 {
    if a == E || b == E {
        E
    } else {
        a ^ b
    }
}

#[derive(Clone, Debug, PartialEq)]
pub enum Op {
    Set(usize, usize, u8),
    SwapRows(usize, usize),
    SwapCols(usize, usize, usize),
    AddRows(usize, usize, usize),
    Freeze(usize),
    Enable,
    Disable,
    Resize(usize, usize),
}

impl Op {
    fn json(&self) -> Value {
        match self {
            Op::Set(i, j, v) => json!(["set", i, j, v]),
            Op::SwapRows(i, j) => json!(["swap_rows", i, j]),
            Op::SwapCols(i, j, h) => json!(["swap_columns", i, j, h]),
            Op::AddRows(d, s, c) => json!(["add_assign_rows", d, s, c]),
            Op::Freeze(c) => json!(["hint_column_dense_and_frozen", c]),
            Op::Enable => json!(["enable_column_access_acceleration"]),
            Op::Disable => json!(["disable_column_access_acceleration"]),
            Op::Resize(h, w) => json!(["resize", h, w]),
        }
    }
    fn from_json(v: &Value) -> Op {
        let a = v.as_array().unwrap();
        let g = |i: usize| a[i].as_u64().unwrap() as usize;
        match a[0].as_str().unwrap() {
            "set" => Op::Set(g(1), g(2), g(3) as u8),
            "swap_rows" => Op::SwapRows(g(1), g(2)),
            "swap_columns" => Op::SwapCols(g(1), g(2), g(3)),
            "add_assign_rows" => Op::AddRows(g(1), g(2), g(3)),
            "hint_column_dense_and_frozen" => Op::Freeze(g(1)),
            "enable_column_access_acceleration" => Op::Enable,
            "disable_column_access_acceleration" => Op::Disable,
            _ => Op::Resize(g(1), g(2)),
        }
    }
}

impl Model {
    pub fn new(h: usize, w: usize, nd: usize) -> Model {
        Model { h, w, cells: vec![vec![Z; w]; h], nd, indexed: false, col_valid: vec![true; w] }
    }
    fn first_dense(&self) -> usize {
        self.w - self.nd
    }
    fn sparse_ones(&self, row: usize) -> Option<Vec<usize>> {
        let mut v = vec![];
        for c in 0..self.first_dense() {
            match self.cells[row][c] {
                O => v.push(c),
                E => return None,
                _ => {}
            }
        }
        Some(v)
    }
    fn any_sparse_one(&self) -> bool {
        (0..self.h).any(|r| (0..self.first_dense()).any(|c| self.cells[r][c] == O))
    }
    fn any_sparse_either(&self) -> bool {
        (0..self.h).any(|r| (0..self.first_dense()).any(|c| self.cells[r][c] == E))
    }

    /// Is the operation allowed by the interface's preconditions (asserts, unimplemented!, trait comments)?
    pub fn admissible(&self, op: &Op) -> bool {
        let fd = self.first_dense();
        match *op {
            Op::Set(i, j, v) => i < self.h && j < self.w && v <= 1 && (j >= fd || !self.indexed),
            Op::SwapRows(i, j) => i < self.h && j < self.h,
            Op::SwapCols(i, j, hint) => {
                i < fd && j < fd && hint <= self.h && (0..hint).all(|r| self.cells[r][i] == self.cells[r][j] && self.cells[r][i] != E)
            }
            Op::AddRows(d, s, start) => {
                if d >= self.h || s >= self.h || d == s {
                    return false;
                }
                if start != 0 {
                    return start == fd && self.nd > 0;
                }
                if self.indexed {
                    // columns are only eliminated one at a time while the index is live
                    match self.sparse_ones(s) {
                        Some(ones) if ones.len() == 1 => self.cells[d][ones[0]] == O,
                        _ => false,
                    }
                } else {
                    true
                }
            }
            Op::Freeze(c) => self.indexed && fd >= 1 && c == fd - 1,
            Op::Enable => self.any_sparse_one() && !self.any_sparse_either(),
            Op::Disable => true,
            Op::Resize(nh, nw) => !self.indexed && nh >= 1 && nh <= self.h && nw >= 1 && nw <= self.w && (nw == self.w || self.w - nw >= self.nd) && !(nw == self.w && self.nd == 0 && false),
        }
    }

    pub fn apply(&mut self, op: &Op) {
        let fd = self.first_dense();
        match *op {
            Op::Set(i, j, v) => self.cells[i][j] = v,
            Op::SwapRows(i, j) => self.cells.swap(i, j),
            Op::SwapCols(i, j, hint) => {
                for r in hint..self.h {
                    self.cells[r].swap(i, j);
                }
                self.col_valid.swap(i, j);
            }
            Op::AddRows(d, s, start) => {
                let src = self.cells[s].clone();
                if start == 0 {
                    if self.indexed {
                        if let Some(ones) = self.sparse_ones(s) {
                            if ones.len() == 1 {
                                self.col_valid[ones[0]] = false;
                            }
                        }
                    }
                    for c in 0..self.w {
                        self.cells[d][c] = xor(self.cells[d][c], src[c]);
                    }
                } else {
                    for c in 0..start {
                        if src[c] != Z {
                            self.cells[d][c] = E;
                        }
                    }
                    for c in start..self.w {
                        self.cells[d][c] = xor(self.cells[d][c], src[c]);
                    }
                }
            }
            Op::Freeze(_) => {
                let _ = fd;
                self.nd += 1;
            }
            Op::Enable => {
                self.indexed = true;
                for v in self.col_valid.iter_mut() {
                    *v = true;
                }
            }
            Op::Disable => self.indexed = false,
            Op::Resize(nh, nw) => {
                self.cells.truncate(nh);
                for r in self.cells.iter_mut() {
                    r.truncate(nw);
                }
                if nw != self.w {
                    self.nd = 0;
                }
                self.h = nh;
                self.w = nw;
                self.col_valid.truncate(nw);
            }
        }
    }
}

pub fn apply_real<M: BinaryMatrix>(m: &mut M, op: &Op) {
    match *op {
        Op::Set(i, j, v) => m.set(i, j, Octet::new(v)),
        Op::SwapRows(i, j) => m.swap_rows(i, j),
        Op::SwapCols(i, j, h) => m.swap_columns(i, j, h),
        Op::AddRows(d, s, c) => m.add_assign_rows(d, s, c),
        Op::Freeze(c) => m.hint_column_dense_and_frozen(c),
        Op::Enable => m.enable_column_access_acceleration(),
        Op::Disable => m.disable_column_access_acceleration(),
        Op::Resize(h, w) => m.resize(h, w),
    }
}

// ------------------------------------------------------------------------------------------------
// comparison of the two implementations with the model
// ------------------------------------------------------------------------------------------------
fn unpack(b: &BinaryOctetVec) -> Vec<u8> {
    b.verif_to_octets()
}

/// all defined cells via get()
fn compare_cells(d: &DenseBinaryMatrix, s: &SparseBinaryMatrix, m: &Model) -> Result<(), String> {
    if d.height() != m.h || d.width() != m.w || s.height() != m.h || s.width() != m.w {
        return Err(format!("shape: dense {}x{}, sparse {}x{}, model {}x{}", d.height(), d.width(), s.height(), s.width(), m.h, m.w));
    }
    for i in 0..m.h {
        for j in 0..m.w {
            let want = m.cells[i][j];
            if want == E {
                continue;
            }
            let gd = d.get(i, j).byte();
            let gs = s.get(i, j).byte();
            if gd != want || gs != want {
                return Err(format!("cell ({}, {}): dense {}, sparse {}, plain bit array {}", i, j, gd, gs, want));
            }
        }
    }
    Ok(())
}

fn compare_row(d: &DenseBinaryMatrix, s: &SparseBinaryMatrix, m: &Model, i: usize) -> Result<(), String> {
    for j in 0..m.w {
        let want = m.cells[i][j];
        if want == E {
            continue;
        }
        let gd = d.get(i, j).byte();
        let gs = s.get(i, j).byte();
        if gd != want || gs != want {
            return Err(format!("cell ({}, {}): dense {}, sparse {}, plain bit array {}", i, j, gd, gs, want));
        }
    }
    Ok(())
}

fn compare_col(d: &DenseBinaryMatrix, s: &SparseBinaryMatrix, m: &Model, j: usize) -> Result<(), String> {
    for i in 0..m.h {
        let want = m.cells[i][j];
        if want == E {
            continue;
        }
        let gd = d.get(i, j).byte();
        let gs = s.get(i, j).byte();
        if gd != want || gs != want {
            return Err(format!("cell ({}, {}): dense {}, sparse {}, plain bit array {}", i, j, gd, gs, want));
        }
    }
    Ok(())
}

fn q_count_ones(d: &DenseBinaryMatrix, s: &SparseBinaryMatrix, m: &Model, row: usize, a: usize, b: usize) -> Result<bool, String> {
    if m.cells[row][a..b].contains(&E) {
        return Ok(false);
    }
    let want = m.cells[row][a..b].iter().filter(|&&x| x == O).count();
    let gd = d.count_ones(row, a, b);
    let gs = s.count_ones(row, a, b);
    if gd != want || gs != want {
        return Err(format!("count_ones({}, {}, {}): dense {}, sparse {}, plain bit array {}", row, a, b, gd, gs, want));
    }
    Ok(true)
}

fn q_row_iter(d: &DenseBinaryMatrix, s: &SparseBinaryMatrix, m: &Model, row: usize, a: usize, b: usize) -> Result<bool, String> {
    if m.cells[row][a..b].contains(&E) {
        return Ok(false);
    }
    let want: Vec<usize> = (a..b).filter(|&c| m.cells[row][c] == O).collect();
    let dv: Vec<(usize, Octet)> = d.get_row_iter(row, a, b).collect();
    // the dense iterator yields every column of the range with its value
    let dcols: Vec<usize> = dv.iter().map(|x| x.0).collect();
    if dcols != (a..b).collect::<Vec<_>>() {
        return Err(format!("get_row_iter({}, {}, {}) dense: columns {:?}", row, a, b, dcols));
    }
    let mut gd: Vec<usize> = dv.iter().filter(|x| x.1 != Octet::zero()).map(|x| x.0).collect();
    // the sparse iterator may omit zeros and yields in storage order
    let sv: Vec<(usize, Octet)> = s.get_row_iter(row, a, b).collect();
    if sv.iter().any(|x| x.0 < a || x.0 >= b) {
        return Err(format!("get_row_iter({}, {}, {}) sparse: yields a column outside the range: {:?}", row, a, b, sv.iter().map(|x| x.0).collect::<Vec<_>>()));
    }
    let mut gs: Vec<usize> = sv.iter().filter(|x| x.1 != Octet::zero()).map(|x| x.0).collect();
    let n = gs.len();
    gs.sort_unstable();
    gs.dedup();
    if gs.len() != n {
        return Err(format!("get_row_iter({}, {}, {}) sparse: a column is yielded twice", row, a, b));
    }
    gd.sort_unstable();
    if gd != want || gs != want {
        return Err(format!("get_row_iter({}, {}, {}): ones dense {:?}, sparse {:?}, plain bit array {:?}", row, a, b, gd, gs, want));
    }
    // the cloned iterator must agree
    let mut cs: Vec<usize> = s.get_row_iter(row, a, b).clone().filter(|x| x.1 != Octet::zero()).map(|x| x.0).collect();
    cs.sort_unstable();
    let mut cd: Vec<usize> = d.get_row_iter(row, a, b).clone().filter(|x| x.1 != Octet::zero()).map(|x| x.0).collect();
    cd.sort_unstable();
    if cs != want || cd != want {
        return Err(format!("get_row_iter({}, {}, {}).clone(): ones dense {:?}, sparse {:?}, plain bit array {:?}", row, a, b, cd, cs, want));
    }
    Ok(true)
}

fn q_ones_in_col(d: &DenseBinaryMatrix, s: &SparseBinaryMatrix, m: &Model, col: usize, a: usize, b: usize) -> Result<bool, String> {
    if (0..m.h).any(|r| m.cells[r][col] == E) {
        return Ok(false);
    }
    let want: Vec<u32> = (a..b).filter(|&r| m.cells[r][col] == O).map(|r| r as u32).collect();
    let mut gd = d.get_ones_in_column(col, a, b);
    let mut gs = s.get_ones_in_column(col, a, b);
    let mut gi = vec![7u32; 3];
    s.get_ones_in_column_into(col, a, b, &mut gi);
    gd.sort_unstable();
    gs.sort_unstable();
    gi.sort_unstable();
    if gd != want || gs != want || gi != want {
        return Err(format!("get_ones_in_column({}, {}, {}): dense {:?}, sparse {:?} / {:?}, plain bit array {:?}", col, a, b, gd, gs, gi, want));
    }
    Ok(true)
}

fn q_sub_row(d: &DenseBinaryMatrix, s: &SparseBinaryMatrix, m: &Model, row: usize) -> Result<bool, String> {
    let fd = m.first_dense();
    if m.cells[row][fd..].contains(&E) {
        return Ok(false);
    }
    let want: Vec<u8> = m.cells[row][fd..].to_vec();
    let bd = d.get_sub_row_as_octets(row, fd);
    let bs = s.get_sub_row_as_octets(row, fd);
    if bd.len() != want.len() || bs.len() != want.len() {
        return Err(format!("get_sub_row_as_octets({}, {}): lengths dense {}, sparse {}, want {}", row, fd, bd.len(), bs.len(), want.len()));
    }
    let (ud, us) = (unpack(&bd), unpack(&bs));
    if ud != want || us != want {
        return Err(format!("get_sub_row_as_octets({}, {}): dense {:?}, sparse {:?}, plain bit array {:?}", row, fd, ud, us, want));
    }
    // the packed words must also be identical (unused low bits zero): the vector kernels read whole words
    if bd.verif_words() != bs.verif_words() {
        return Err(format!("get_sub_row_as_octets({}, {}): packed words differ: dense {:x?}, sparse {:x?}", row, fd, bd.verif_words(), bs.verif_words()));
    }
    let wantc: Vec<usize> = (fd..m.w).filter(|&c| m.cells[row][c] == O).collect();
    let nd = d.query_non_zero_columns(row, fd);
    let ns = s.query_non_zero_columns(row, fd);
    if nd != wantc || ns != wantc {
        return Err(format!("query_non_zero_columns({}, {}): dense {:?}, sparse {:?}, plain bit array {:?}", row, fd, nd, ns, wantc));
    }
    Ok(true)
}

/// dense only: count_ones / get_row_iter on an arbitrary column range
fn q_dense_range(d: &DenseBinaryMatrix, m: &Model, row: usize, a: usize, b: usize) -> Result<bool, String> {
    if a > b || b > m.w || m.cells[row][a..b].contains(&E) {
        return Ok(false);
    }
    let want: Vec<usize> = (a..b).filter(|&c| m.cells[row][c] == O).collect();
    let gc = d.count_ones(row, a, b);
    if gc != want.len() {
        return Err(format!("dense count_ones({}, {}, {}) = {}, plain bit array {}", row, a, b, gc, want.len()));
    }
    let got: Vec<usize> = d.get_row_iter(row, a, b).filter(|x| x.1 != Octet::zero()).map(|x| x.0).collect();
    if got != want {
        return Err(format!("dense get_row_iter({}, {}, {}): ones {:?}, plain bit array {:?}", row, a, b, got, want));
    }
    Ok(true)
}

/// dense only: query_non_zero_columns / get_sub_row_as_octets from an arbitrary start column
fn q_dense_nonzero(d: &DenseBinaryMatrix, m: &Model, row: usize, start: usize) -> Result<bool, String> {
    if start > m.w || m.cells[row][start..].contains(&E) {
        return Ok(false);
    }
    let want: Vec<usize> = (start..m.w).filter(|&c| m.cells[row][c] == O).collect();
    let got = d.query_non_zero_columns(row, start);
    if got != want {
        return Err(format!("dense query_non_zero_columns({}, {}): {:?}, plain bit array {:?}", row, start, got, want));
    }
    let sub = unpack(&d.get_sub_row_as_octets(row, start));
    if sub != m.cells[row][start..] {
        return Err(format!("dense get_sub_row_as_octets({}, {}): {:?}, plain bit array {:?}", row, start, sub, &m.cells[row][start..]));
    }
    Ok(true)
}

// ------------------------------------------------------------------------------------------------
// (1) bounded exploration of admissible operation sequences
// ------------------------------------------------------------------------------------------------
#[derive(Clone)]
struct Triple {
    d: DenseBinaryMatrix,
    s: SparseBinaryMatrix,
    m: Model,
}

impl Triple {
    fn new(h: usize, w: usize, nd: usize) -> Triple {
        Triple { d: DenseBinaryMatrix::new(h, w, nd), s: SparseBinaryMatrix::new(h, w, nd), m: Model::new(h, w, nd) }
    }
    fn hash128(&self) -> u128 {
        let mut h1 = std::collections::hash_map::DefaultHasher::new();
        self.d.hash(&mut h1);
        self.s.hash(&mut h1);
        self.m.hash(&mut h1);
        let a = h1.finish();
        let mut h2 = std::collections::hash_map::DefaultHasher::new();
        0x5bd1e995u64.hash(&mut h2);
        self.m.hash(&mut h2);
        self.s.hash(&mut h2);
        self.d.hash(&mut h2);
        ((a as u128) << 64) | h2.finish() as u128
    }
    /// apply to all three; Err = panic in an implementation on an admissible operation
    fn apply(&mut self, op: &Op) -> Result<(), String> {
        let (d, s) = (&mut self.d, &mut self.s);
        guarded(|| apply_real(d, op)).map_err(|p| format!("dense panicked on admissible {:?}: {}", op, p))?;
        guarded(|| apply_real(s, op)).map_err(|p| format!("sparse panicked on admissible {:?}: {}", op, p))?;
        self.m.apply(op);
        Ok(())
    }
    fn boundary_rows(&self) -> Vec<usize> {
        let mut v = vec![0, 1, self.m.h - 1];
        v.retain(|&r| r < self.m.h);
        v.sort_unstable();
        v.dedup();
        v
    }
    fn boundary_cols(&self) -> Vec<usize> {
        let fd = self.m.first_dense();
        let mut v = vec![0, 1, 63, 64, 65, fd.saturating_sub(1), fd, self.m.w - 1];
        v.retain(|&c| c < self.m.w);
        v.sort_unstable();
        v.dedup();
        v
    }
    /// all queries on the boundary alphabets
    fn check_queries(&self) -> Result<u64, String> {
        let (d, s, m) = (&self.d, &self.s, &self.m);
        let mut n = 0u64;
        let r = guarded(|| -> Result<u64, String> {
            let mut n = 0;
            compare_cells(d, s, m)?;
            n += 1;
            let fd = m.first_dense();
            let rows = self.boundary_rows();
            let mut cols: Vec<usize> = self.boundary_cols().into_iter().filter(|&c| c <= fd).collect();
            if !cols.contains(&fd) {
                cols.push(fd);
            }
            for &row in &rows {
                for (x, &a) in cols.iter().enumerate() {
                    for &b in &cols[x..] {
                        if q_count_ones(d, s, m, row, a, b)? {
                            n += 1;
                        }
                        if q_row_iter(d, s, m, row, a, b)? {
                            n += 1;
                        }
                    }
                }
                if q_sub_row(d, s, m, row)? {
                    n += 1;
                }
            }
            if m.indexed {
                for &c in cols.iter().filter(|&&c| c < fd) {
                    if !m.col_valid[c] {
                        continue;
                    }
                    for (a, b) in [(0, m.h), (1.min(m.h), m.h), (0, m.h - 1)] {
                        if q_ones_in_col(d, s, m, c, a, b)? {
                            n += 1;
                        }
                    }
                }
            }
            // extension: the dense implementation has no V-section restriction, so it is additionally held to the
            // plain-array answers on ranges reaching into / starting inside the dense tail
            let all_cols = self.boundary_cols();
            for &row in &rows {
                for (x, &a) in all_cols.iter().enumerate() {
                    if q_dense_nonzero(d, m, row, a)? {
                        n += 1;
                    }
                    for &b in &all_cols[x..] {
                        if b > fd && q_dense_range(d, m, row, a, b)? {
                            n += 1;
                        }
                    }
                    if a > fd && q_dense_range(d, m, row, a, m.w)? {
                        n += 1;
                    }
                }
                if q_dense_nonzero(d, m, row, m.w)? {
                    n += 1;
                }
            }
            Ok(n)
        });
        match r {
            Ok(Ok(x)) => n += x,
            Ok(Err(e)) => return Err(e),
            Err(p) => return Err(format!("query panicked: {}", p)),
        }
        Ok(n)
    }
    /// boundary-alphabet mutators that are admissible in this state
    fn mutators(&self) -> Vec<Op> {
        let m = &self.m;
        let rows = self.boundary_rows();
        let cols = self.boundary_cols();
        let fd = m.first_dense();
        let mut v = vec![];
        for &i in &[0usize, m.h - 1] {
            for &j in &cols {
                if m.cells[i][j] != E {
                    v.push(Op::Set(i, j, 1 - m.cells[i][j]));
                }
            }
        }
        v.push(Op::Set(rows[rows.len() / 2], cols[cols.len() / 2], 1));
        for (x, &i) in rows.iter().enumerate() {
            for &j in &rows[x + 1..] {
                v.push(Op::SwapRows(i, j));
            }
        }
        let vc: Vec<usize> = cols.iter().copied().filter(|&c| c < fd).collect();
        for (x, &i) in vc.iter().enumerate() {
            for &j in &vc[x + 1..] {
                v.push(Op::SwapCols(i, j, 0));
                v.push(Op::SwapCols(j, i, 1));
            }
        }
        for &d in &rows {
            for &s in &rows {
                v.push(Op::AddRows(d, s, 0));
                if m.nd > 0 {
                    v.push(Op::AddRows(d, s, fd));
                }
            }
        }
        if fd >= 1 {
            v.push(Op::Freeze(fd - 1));
        }
        v.push(Op::Enable);
        v.push(Op::Disable);
        v.push(Op::Resize(m.h, m.w));
        v.push(Op::Resize(m.h - 1, m.w));
        // a large shrink (half the rows): whatever is kept per row must not depend on how many rows were dropped
        if m.h >= 4 {
            v.push(Op::Resize(m.h / 2, m.w));
        }
        if m.nd > 0 && fd >= 1 {
            v.push(Op::Resize(m.h, fd));
            if fd >= 2 {
                v.push(Op::Resize(m.h - 1, fd - 1));
            }
        }
        v.retain(|op| m.admissible(op));
        v.dedup();
        v
    }
}

fn lcg_bit(seed: u64, i: usize, j: usize) -> bool {
    let x = seed.wrapping_mul(0x9E3779B97F4A7C15) ^ (i as u64).wrapping_mul(0xC2B2AE3D27D4EB4F) ^ (j as u64).wrapping_mul(0x165667B19E3779F9);
    let x = (x ^ (x >> 29)).wrapping_mul(0xBF58476D1CE4E5B9);
    (x >> 40) & 7 == 0
}

/// seed construction as an operation list (so a replay needs nothing but operations)
fn seed_ops(h: usize, w: usize, nd: usize, content: &str, prep: u8) -> Vec<Op> {
    let mut ops = vec![];
    let fd = w - nd;
    for i in 0..h {
        for j in 0..w {
            let one = match content {
                "band" => (j + h - i) % h < 3 || (j >= fd && (i + j) % 5 == 0),
                "ident" => i == j || j == w - 1 || i == h - 1,
                "tail1" => j >= fd || i == j,
                "checker" => (i + j) % 2 == 0,
                _ => lcg_bit(11, i, j),
            };
            if one {
                ops.push(Op::Set(i, j, 1));
            }
        }
    }
    match prep {
        1 => ops.push(Op::Enable),
        2 => {
            // non-initial start: index on, three freezes and two swaps already behind us
            ops.push(Op::Enable);
            ops.push(Op::SwapCols(0, fd - 1, 0));
            for k in 0..3 {
                if fd > k + 2 {
                    ops.push(Op::Freeze(fd - 1 - k));
                }
            }
            ops.push(Op::SwapRows(0, h - 1));
            ops.push(Op::SwapCols(1, 0, 0));
        }
        _ => {}
    }
    ops
}

struct ExploreStats {
    states: u64,
    transitions: u64,
    queries: u64,
    revisits: u64,
    either_states: u64,
    freeze_respace: u64,
}

fn explore_seed(h: usize, w: usize, nd: usize, content: &str, prep: u8, depth: usize, st: &Stats) -> ExploreStats {
    let mut es = ExploreStats { states: 0, transitions: 0, queries: 0, revisits: 0, either_states: 0, freeze_respace: 0 };
    let sops = seed_ops(h, w, nd, content, prep);
    let mut t = Triple::new(h, w, nd);
    let report = |path: &[Op], msg: String| {
        let all: Vec<Value> = sops.iter().chain(path.iter()).map(|o| o.json()).collect();
        st.violation(
            format!("seq:{}x{}:{}:{}:{}:{:?}", h, w, nd, content, prep, path),
            format!("matrix {}x{} (dense tail {}), seed {}/{}, then {:?}: {}", h, w, nd, content, prep, path, msg),
            json!({"kind":"sequence","h":h,"w":w,"nd":nd,"ops":all,"seed_len":sops.len()}),
        );
    };
    for op in &sops {
        if !t.m.admissible(op) {
            machinery_failure(&format!("C16 seed op {:?} inadmissible ({}x{} nd {} {})", op, h, w, nd, content));
        }
        if let Err(e) = t.apply(op) {
            report(&[], e);
            return es;
        }
    }
    let mut seen: HashMap<u128, usize> = HashMap::new();
    fn rec(t: &Triple, remaining: usize, path: &mut Vec<Op>, seen: &mut HashMap<u128, usize>, es: &mut ExploreStats, report: &dyn Fn(&[Op], String)) {
        let key = t.hash128();
        match seen.get(&key) {
            Some(&r) if r >= remaining => {
                es.revisits += 1;
                return;
            }
            Some(_) => {}
            None => {
                es.states += 1;
                if t.m.cells.iter().any(|r| r.contains(&E)) {
                    es.either_states += 1;
                }
                match t.check_queries() {
                    Ok(n) => es.queries += n,
                    Err(e) => {
                        report(path, e);
                        return;
                    }
                }
            }
        }
        seen.insert(key, remaining);
        if remaining == 0 {
            return;
        }
        for op in t.mutators() {
            let mut t2 = t.clone();
            es.transitions += 1;
            if let Op::Freeze(_) = op {
                if t.m.nd % 64 == 0 {
                    es.freeze_respace += 1;
                }
            }
            path.push(op.clone());
            match t2.apply(&op) {
                Err(e) => report(path, e),
                Ok(()) => rec(&t2, remaining - 1, path, seen, es, report),
            }
            path.pop();
        }
    }
    rec(&t, depth, &mut vec![], &mut seen, &mut es, &report);
    es
}

fn replay_sequence(case: &Value) -> Result<(), String> {
    let g = |n: &str| case[n].as_u64().unwrap() as usize;
    let mut t = Triple::new(g("h"), g("w"), g("nd"));
    let ops: Vec<Op> = case["ops"].as_array().unwrap().iter().map(Op::from_json).collect();
    let seed_len = g("seed_len");
    for (i, op) in ops.iter().enumerate() {
        if !t.m.admissible(op) {
            return Ok(()); // not a sequence the interface allows: nothing to judge
        }
        t.apply(op)?;
        if i + 1 >= seed_len {
            t.check_queries()?;
        }
    }
    Ok(())
}

// ------------------------------------------------------------------------------------------------
// (2) lock-step matrix inside the real solver
// ------------------------------------------------------------------------------------------------
thread_local! {
    static LS_ERRORS: RefCell<Vec<String>> = const { RefCell::new(Vec::new()) };
    static LS_OPS: RefCell<(u64, u64, u64)> = const { RefCell::new((0, 0, 0)) }; // (mutators, queries compared, queries skipped (undefined cells))
    static LS_LEAD_SPARSE: RefCell<bool> = const { RefCell::new(false) };
}

fn ls_err(e: String) {
    LS_ERRORS.with(|v| {
        let mut v = v.borrow_mut();
        if v.len() < 5 {
            v.push(e);
        }
    });
}

fn ls_mut() {
    LS_OPS.with(|c| c.borrow_mut().0 += 1);
}

fn ls_query(r: Result<bool, String>) {
    match r {
        Ok(true) => LS_OPS.with(|c| c.borrow_mut().1 += 1),
        Ok(false) => LS_OPS.with(|c| c.borrow_mut().2 += 1),
        Err(e) => ls_err(e),
    }
}

#[derive(Clone)]
pub struct Lockstep {
    d: DenseBinaryMatrix,
    s: SparseBinaryMatrix,
    m: Model,
    since_full: usize,
}

impl Lockstep {
    fn lead_sparse() -> bool {
        LS_LEAD_SPARSE.with(|l| *l.borrow())
    }
    fn after_mutation(&mut self) {
        ls_mut();
        self.since_full += 1;
        let period = 256.max(self.m.h * self.m.w / 600);
        if self.since_full >= period {
            self.since_full = 0;
            if let Err(e) = compare_cells(&self.d, &self.s, &self.m) {
                ls_err(format!("periodic full comparison: {}", e));
            }
        }
    }
}

impl BinaryMatrix for Lockstep {
    fn new(height: usize, width: usize, hint: usize) -> Self {
        Lockstep { d: DenseBinaryMatrix::new(height, width, hint), s: SparseBinaryMatrix::new(height, width, hint), m: Model::new(height, width, hint), since_full: 0 }
    }
    fn set(&mut self, i: usize, j: usize, value: Octet) {
        let op = Op::Set(i, j, value.byte());
        apply_real(&mut self.d, &op);
        apply_real(&mut self.s, &op);
        self.m.apply(&op);
        ls_mut();
    }
    fn height(&self) -> usize {
        if self.d.height() != self.m.h || self.s.height() != self.m.h {
            ls_err(format!("height: dense {}, sparse {}, model {}", self.d.height(), self.s.height(), self.m.h));
        }
        self.m.h
    }
    fn width(&self) -> usize {
        if self.d.width() != self.m.w || self.s.width() != self.m.w {
            ls_err(format!("width: dense {}, sparse {}, model {}", self.d.width(), self.s.width(), self.m.w));
        }
        self.m.w
    }
    fn size_in_bytes(&self) -> usize {
        self.d.size_in_bytes()
    }
    fn count_ones(&self, row: usize, start_col: usize, end_col: usize) -> usize {
        ls_query(q_count_ones(&self.d, &self.s, &self.m, row, start_col, end_col));
        if Self::lead_sparse() {
            self.s.count_ones(row, start_col, end_col)
        } else {
            self.d.count_ones(row, start_col, end_col)
        }
    }
    fn get_row_iter(&self, row: usize, start_col: usize, end_col: usize) -> OctetIter<'_> {
        ls_query(q_row_iter(&self.d, &self.s, &self.m, row, start_col, end_col));
        if Self::lead_sparse() {
            self.s.get_row_iter(row, start_col, end_col)
        } else {
            self.d.get_row_iter(row, start_col, end_col)
        }
    }
    fn get_ones_in_column(&self, col: usize, start_row: usize, end_row: usize) -> Vec<u32> {
        ls_query(q_ones_in_col(&self.d, &self.s, &self.m, col, start_row, end_row));
        if Self::lead_sparse() {
            self.s.get_ones_in_column(col, start_row, end_row)
        } else {
            self.d.get_ones_in_column(col, start_row, end_row)
        }
    }
    fn get_sub_row_as_octets(&self, row: usize, start_col: usize) -> BinaryOctetVec {
        if start_col == self.m.first_dense() {
            ls_query(q_sub_row(&self.d, &self.s, &self.m, row));
        } else {
            ls_err(format!("solver called get_sub_row_as_octets({}, {}) but the dense tail starts at {}", row, start_col, self.m.first_dense()));
        }
        if Self::lead_sparse() {
            self.s.get_sub_row_as_octets(row, start_col)
        } else {
            self.d.get_sub_row_as_octets(row, start_col)
        }
    }
    fn query_non_zero_columns(&self, row: usize, start_col: usize) -> Vec<usize> {
        if start_col == self.m.first_dense() {
            ls_query(q_sub_row(&self.d, &self.s, &self.m, row));
        }
        if Self::lead_sparse() {
            self.s.query_non_zero_columns(row, start_col)
        } else {
            self.d.query_non_zero_columns(row, start_col)
        }
    }
    fn get(&self, i: usize, j: usize) -> Octet {
        let want = self.m.cells[i][j];
        let (gd, gs) = (self.d.get(i, j), self.s.get(i, j));
        if want == E {
            LS_OPS.with(|c| c.borrow_mut().2 += 1);
        } else {
            if gd.byte() != want || gs.byte() != want {
                ls_err(format!("get({}, {}): dense {}, sparse {}, plain bit array {}", i, j, gd.byte(), gs.byte(), want));
            }
            LS_OPS.with(|c| c.borrow_mut().1 += 1);
        }
        if Self::lead_sparse() {
            gs
        } else {
            gd
        }
    }
    fn swap_rows(&mut self, i: usize, j: usize) {
        let op = Op::SwapRows(i, j);
        apply_real(&mut self.d, &op);
        apply_real(&mut self.s, &op);
        self.m.apply(&op);
        for r in [i, j] {
            if let Err(e) = compare_row(&self.d, &self.s, &self.m, r) {
                ls_err(format!("after swap_rows({}, {}): {}", i, j, e));
            }
        }
        self.after_mutation();
    }
    fn swap_columns(&mut self, i: usize, j: usize, start_row_hint: usize) {
        let op = Op::SwapCols(i, j, start_row_hint);
        if !self.m.admissible(&op) {
            ls_err(format!("the solver performs {:?}, which the model of the interface's preconditions calls inadmissible (machinery)", op));
        }
        apply_real(&mut self.d, &op);
        apply_real(&mut self.s, &op);
        self.m.apply(&op);
        for c in [i, j] {
            if let Err(e) = compare_col(&self.d, &self.s, &self.m, c) {
                ls_err(format!("after swap_columns({}, {}, {}): {}", i, j, start_row_hint, e));
            }
        }
        self.after_mutation();
    }
    fn enable_column_access_acceleration(&mut self) {
        let op = Op::Enable;
        apply_real(&mut self.d, &op);
        apply_real(&mut self.s, &op);
        self.m.apply(&op);
        self.after_mutation();
    }
    fn disable_column_access_acceleration(&mut self) {
        let op = Op::Disable;
        apply_real(&mut self.d, &op);
        apply_real(&mut self.s, &op);
        self.m.apply(&op);
        self.after_mutation();
    }
    fn hint_column_dense_and_frozen(&mut self, i: usize) {
        let op = Op::Freeze(i);
        if !self.m.admissible(&op) {
            ls_err(format!("the solver performs {:?}, which the model calls inadmissible (machinery)", op));
        }
        apply_real(&mut self.d, &op);
        apply_real(&mut self.s, &op);
        self.m.apply(&op);
        if let Err(e) = compare_col(&self.d, &self.s, &self.m, i) {
            ls_err(format!("after hint_column_dense_and_frozen({}): {}", i, e));
        }
        self.after_mutation();
    }
    fn add_assign_rows(&mut self, dest: usize, src: usize, start_col: usize) {
        let op = Op::AddRows(dest, src, start_col);
        if !self.m.admissible(&op) {
            ls_err(format!("the solver performs {:?} (indexed={}), which the model calls inadmissible (machinery)", op, self.m.indexed));
        }
        apply_real(&mut self.d, &op);
        apply_real(&mut self.s, &op);
        self.m.apply(&op);
        if let Err(e) = compare_row(&self.d, &self.s, &self.m, dest) {
            ls_err(format!("after add_assign_rows({}, {}, {}): {}", dest, src, start_col, e));
        }
        self.after_mutation();
    }
    fn resize(&mut self, new_height: usize, new_width: usize) {
        let op = Op::Resize(new_height, new_width);
        if !self.m.admissible(&op) {
            ls_err(format!("the solver performs {:?}, which the model calls inadmissible (machinery)", op));
        }
        apply_real(&mut self.d, &op);
        apply_real(&mut self.s, &op);
        self.m.apply(&op);
        if let Err(e) = compare_cells(&self.d, &self.s, &self.m) {
            ls_err(format!("after resize({}, {}): {}", new_height, new_width, e));
        }
        self.after_mutation();
    }
}

/// run the real solver on a Lockstep matrix. erased/repair empty = encoding matrix.
fn lockstep_trace(k: u32, erased: &[u32], repair: &[u32], no_hdpc: bool, lead_sparse: bool) -> Result<(u64, u64, u64), String> {
    let p = rfcref::params_for_k(k);
    let t = 3usize;
    let data = data_pos(k as usize * t);
    let src = split_symbols(&data, t);
    LS_ERRORS.with(|v| v.borrow_mut().clear());
    LS_OPS.with(|c| *c.borrow_mut() = (0, 0, 0));
    LS_LEAD_SPARSE.with(|l| *l.borrow_mut() = lead_sparse);
    // ISIs and the D vector like the decoder builds them
    let c_ref: Option<Vec<Vec<u8>>> = if p.Kp <= 300 { Some(rfcref::intermediate_symbols(k, &src)) } else { None };
    let mut isis: Vec<u32> = (0..k).filter(|e| !erased.contains(e)).collect();
    let mut syms: Vec<Vec<u8>> = isis.iter().map(|&i| src[i as usize].clone()).collect();
    for x in k..p.Kp {
        isis.push(x);
        syms.push(vec![0; t]);
    }
    if !repair.is_empty() {
        let enc = raptorq::SourceBlockEncoder::new(0, &block_cfg(k, t as u16), &data);
        for &e in repair {
            isis.push(isi_of(&p, k, e));
            syms.push(repair_packet(&enc, k, e).data().to_vec());
        }
    }
    let s = p.S as usize;
    let h = p.H as usize;
    let res = guarded(|| {
        if no_hdpc {
            let m = rq::generate_constraint_matrix_no_hdpc::<Lockstep>(k, &isis);
            let mut d = SymbolSlab::with_zeros(s + isis.len(), t);
            for (i, sy) in syms.iter().enumerate() {
                d.get_mut(s + i).copy_from_slice(sy);
            }
            let mut dec = rq::IntermediateSymbolDecoder::new_no_hdpc(m, d, k);
            dec.execute().0
        } else {
            let (m, hd) = rq::generate_constraint_matrix::<Lockstep>(k, &isis);
            let mut d = SymbolSlab::with_zeros(s + h + isis.len(), t);
            for (i, sy) in syms.iter().enumerate() {
                d.get_mut(s + h + i).copy_from_slice(sy);
            }
            let mut dec = rq::IntermediateSymbolDecoder::new(m, hd, d, k);
            dec.execute().0
        }
    });
    let errs: Vec<String> = LS_ERRORS.with(|v| v.borrow().clone());
    let ops = LS_OPS.with(|c| *c.borrow());
    if let Some(e) = errs.first() {
        return Err(format!("K={} erased {:?} repair {:?} no_hdpc={} lead={}: {}", k, erased, repair, no_hdpc, if lead_sparse { "sparse" } else { "dense" }, e));
    }
    match res {
        Err(p) => return Err(format!("K={} erased {:?} repair {:?} no_hdpc={}: solver on lock-step matrix panicked: {}", k, erased, repair, no_hdpc, p)),
        Ok(Some(slab)) => {
            if let Some(c) = c_ref {
                for i in 0..p.L as usize {
                    if slab.get(i) != &c[i][..] {
                        return Err(format!("K={} erased {:?} repair {:?} no_hdpc={}: solver result differs from the reference intermediate symbol {}", k, erased, repair, no_hdpc, i));
                    }
                }
            }
        }
        Ok(None) => {
            if erased.is_empty() {
                return Err(format!("K={}: encoding matrix reported singular on the lock-step matrix", k));
            }
        }
    }
    Ok(ops)
}

pub fn replay(case: &Value) -> Result<(), String> {
    if let Some(r) = replay_delegate("C16", case) {
        return r;
    }
    match case["kind"].as_str().unwrap_or("") {
        "sequence" => replay_sequence(case),
        "lockstep" => {
            let v = |n: &str| -> Vec<u32> { case[n].as_array().unwrap().iter().map(|x| x.as_u64().unwrap() as u32).collect() };
            lockstep_trace(case["K"].as_u64().unwrap() as u32, &v("erased"), &v("repair"), case["no_hdpc"].as_bool().unwrap(), case["lead_sparse"].as_bool().unwrap()).map(|_| ())
        }
        k => Err(format!("unknown kind {}", k)),
    }
}

fn enumerate(ctx: &Ctx, st: &Stats) {
    let checked = is_checked_build();
    // ---- (1) sequences
    if !checked {
        let depth = if ctx.quick() { 3 } else { 4 };
        let mut seeds: Vec<(usize, usize, usize, &'static str, u8, usize)> = vec![];
        let shapes: Vec<(usize, usize)> = if ctx.quick() { vec![(6, 6), (6, 9), (70, 66), (70, 70), (136, 134)] } else { vec![(6, 6), (6, 9), (8, 8), (12, 70), (70, 66), (70, 70), (130, 129), (136, 134), (200, 198)] };
        for &(h, w) in &shapes {
            // dense tails just below / at / above every word boundary the width allows (64, 128, 192), and an empty tail
            let tails: Vec<usize> = if w < 10 {
                vec![0, 1, 2]
            } else if w > 190 {
                vec![127, 128, 190, 191, 192]
            } else if w > 130 {
                if ctx.quick() { vec![127, 128] } else { vec![0, 63, 126, 127, 128, 129] }
            } else if ctx.quick() {
                vec![1, 63, 64]
            } else {
                vec![0, 1, 2, 62, 63, 64, 65]
            };
            for &nd in &tails {
                if nd + 4 > w {
                    continue;
                }
                let contents: Vec<&'static str> = if ctx.quick() { vec!["band", "checker"] } else { vec!["band", "ident", "tail1", "checker"] };
                for (ci, c) in contents.iter().enumerate() {
                    for prep in 0..3u8 {
                        // rotate the preparations over the contents in the quick tier
                        if ctx.quick() && (ci + prep as usize) % 2 == 1 && prep != 1 {
                            continue;
                        }
                        let d = if h > 100 { depth - 1 } else if h <= 8 && ctx.quick() { depth + 1 } else { depth };
                        if nd == 0 && prep == 2 {
                            continue; // the prepared start needs a column swap target inside V and three freezes: fine, but keep the empty-tail seeds simple
                        }
                        seeds.push((h, w, nd, c, prep, d));
                    }
                }
            }
        }
        seeds.sort_by_key(|s| std::cmp::Reverse(s.0 * s.1));
        par_for(seeds.len(), |i| {
            let (h, w, nd, c, prep, d) = seeds[i];
            let es = explore_seed(h, w, nd, c, prep, d, st);
            st.state(es.states);
            st.transition(es.transitions);
            st.trace(es.transitions);
            st.eval(es.transitions + es.queries);
            st.nontriv(es.states);
            st.count("seq_seeds", 1);
            st.count("seq_states", es.states);
            st.count("seq_transitions", es.transitions);
            st.count("seq_query_comparisons", es.queries);
            st.count("seq_revisits_pruned", es.revisits);
            st.count("seq_states_with_undefined_cells", es.either_states);
            st.count("seq_freezes_crossing_word_boundary", es.freeze_respace);
            st.note(format!("seed {}x{} tail {} {} prep {} depth {}: {} states, {} transitions, {} query comparisons", h, w, nd, c, prep, d, es.states, es.transitions, es.queries));
        });
    }
    // ---- (2) lock-step traces
    let mut traces: Vec<(u32, Vec<u32>, Vec<u32>, bool, bool)> = vec![];
    let enc_ks: Vec<u32> = if checked {
        if ctx.quick() { vec![10, 26, 101] } else { rfcref::all_kprime().into_iter().filter(|&k| k <= 270).collect() }
    } else if ctx.quick() {
        rfcref::all_kprime().into_iter().filter(|&k| k <= 101).collect()
    } else {
        rfcref::all_kprime().into_iter().filter(|&k| k <= 500).collect()
    };
    for &k in &enc_ks {
        traces.push((k, vec![], vec![], false, false));
        traces.push((k, vec![], vec![], false, true));
    }
    for &k in &[10u32, 26, 101] {
        if checked && ctx.quick() && k == 101 {
            continue;
        }
        let hh = rfcref::params_for_k(k).H;
        let far = (1u32 << 24) - 1;
        // decode without enough overhead for the fast path
        traces.push((k, vec![0, k / 2], vec![k, k + 1, far], false, false));
        traces.push((k, vec![0, k / 2], vec![k, k + 1, far], false, true));
        traces.push((k, vec![k - 1], vec![k + 3], false, true));
        // repair only
        traces.push((k, (0..k).collect(), (k..2 * k + 2).collect(), false, false));
        // GF(2)-only system (fast path) with enough overhead
        let many: Vec<u32> = (k..k + hh + 4).collect();
        traces.push((k, vec![1], many.clone(), true, false));
        traces.push((k, vec![1], many.clone(), true, true));
        traces.push((k, vec![1], many, false, false));
    }
    traces.sort_by_key(|t| std::cmp::Reverse(t.0));
    par_for(traces.len(), |i| {
        let (k, er, rp, nh, ls) = &traces[i];
        match lockstep_trace(*k, er, rp, *nh, *ls) {
            Ok((muts, cmp, skipped)) => {
                st.count("lockstep_traces", 1);
                st.count("lockstep_mutations", muts);
                st.count("lockstep_queries_compared", cmp);
                st.count("lockstep_reads_of_undefined_cells", skipped);
                st.transition(muts);
                st.trace(1);
                st.eval(muts + cmp);
                st.nontriv(1);
                if *nh {
                    st.count("lockstep_no_hdpc_traces", 1);
                }
            }
            Err(m) => st.violation(format!("lockstep:{}:{:?}:{:?}:{}:{}", k, er, rp, nh, ls), m, json!({"kind":"lockstep","K":k,"erased":er,"repair":rp,"no_hdpc":nh,"lead_sparse":ls})),
        }
    });
}

pub fn run(ctx: &Ctx) -> i32 {
    let st = Stats::new();
    enumerate(ctx, &st);
    if ctx.flag("--child") {
        return child_emit(&st);
    }
    run_child_and_merge(ctx, &st, "RQ_BIN_CHECKED", "checked", &[]);
    st.sample(json!({"kind":"sequence","matrix":"70x66, dense tail 63, content band, index enabled","ops":[["hint_column_dense_and_frozen",2],["add_assign_rows",0,69,3],["swap_columns",0,1,0]],"checked":"all cells via get, count_ones / get_row_iter on all boundary column ranges, get_ones_in_column, get_sub_row_as_octets (values and packed words), query_non_zero_columns on dense, sparse and the plain bit array"}));
    st.sample(json!({"kind":"lockstep","K":26,"erased":[0,13],"repair":[26,27,16777215],"lead":"sparse","explanation":"the real IntermediateSymbolDecoder runs on a matrix that forwards every call to dense+sparse+model and compares"}));
    finish(ctx, &st, Finish {
        level: "model_checking",
        rule: "(1) depth-bounded exploration (depth 3 quick / 4 thorough; 4 for the 6-row shapes in the quick tier; one less for shapes above 100 rows; per-seed depths in notes) of ALL admissible sequences of interface operations (set, swap_rows, swap_columns with hints, add_assign_rows from column 0 and from the dense tail, hint_column_dense_and_frozen, enable/disable index, resize) over boundary parameter alphabets (rows {0,1,h-1}; columns {0,1,63,64,65,last sparse,first dense,w-1}) from seed states (shapes x dense-tail sizes crossing the 64-bit word boundary x contents x {un-indexed, indexed, after 3 freezes + swaps}); every operation applied to a real DenseBinaryMatrix, a real SparseBinaryMatrix and a plain 2-D array with 'undefined' cells; states de-duplicated on the real objects' own Hash/Eq (exact); in every state all cells and all queries on the boundary alphabets must agree. Admissibility = the interface's preconditions read off the code (see DESIGN.md C16). (2) lock-step traces: the real solver (encode for every K' in the range, decode patterns with and without HDPC rows) runs on a BinaryMatrix implementation that forwards every call to dense + sparse + model and compares results; lead = which implementation's answers the solver sees. Both also in the debug-assertions build (X matrix operations). distinct_nontrivial = distinct states + traces.".into(),
        exhaustive: false,
        assumptions: vec!["cells left of start_col in the destination of a partial row addition are undefined (trait comment) and never compared".into(), "matrices start with a non-empty dense tail as in every use by the library; after the tail has been dropped by resize only get/set/swap/add/resize are exercised".into()],
        extra: Map::new(),
        must_be_nonzero: vec!["seq_states", "seq_states_with_undefined_cells", "seq_freezes_crossing_word_boundary", "lockstep_traces", "lockstep_no_hdpc_traces", "lockstep_queries_compared", "checked/lockstep_traces"],
    }, replay)
}
