//! C15 — code parameters and symbol tuples are well-formed for every K and every ESI.
//! Shape D: all K in 0..=56403; all (K', X), X in 0..2^24+K', in the release and the checked build.
use crate::common::*;
use crate::rfcref::{self, Params};
use crate::tables::TABLE2;
use raptorq::verif as rq;
use raptorq::{EncodingPacket, ObjectTransmissionInformation as Oti, SourceBlockDecoder, SourceBlockEncoder};
use serde_json::{json, Map, Value};

fn check_params(k: u32) -> Result<(), String> {
    let p = rfcref::params_for_k(k);
    let got = guarded(|| {
        (
            rq::extended_source_block_symbols(k),
            rq::systematic_index(k),
            rq::num_ldpc_symbols(k),
            rq::num_hdpc_symbols(k),
            rq::num_lt_symbols(k),
            rq::num_intermediate_symbols(k),
            rq::num_pi_symbols(k),
            rq::calculate_p1(k),
        )
    })
    .map_err(|e| format!("K={}: panic {}", k, e))?;
    let want = (p.Kp, p.J, p.S, p.H, p.W, p.L, p.P, p.P1);
    if got != want {
        return Err(format!("K={}: (K',J,S,H,W,L,P,P1) = {:?}, reference {:?}", k, got, want));
    }
    // consistency facts of the property, on the implementation's own values
    let (kp, _j, s, h, w, l, pp, p1) = got;
    if kp < k || !rfcref::is_prime(s) || !rfcref::is_prime(w) || !rfcref::is_prime(p1) || p1 < pp || (pp..p1).any(rfcref::is_prime) || w < s + 1 || pp < h || h < 2 || l >= 65536 || l != kp + s + h {
        return Err(format!("K={}: parameter relations violated by {:?}", k, got));
    }
    Ok(())
}

fn check_tuple(p: &Params, x: u32) -> Result<(), String> {
    let got = guarded(|| rq::intermediate_tuple(x, p.W, p.J, p.P1)).map_err(|e| format!("K'={} X={}: panic {}", p.Kp, x, e))?;
    let want = rfcref::tuple(p, x);
    if got != want {
        return Err(format!("K'={} X={}: tuple {:?}, reference {:?}", p.Kp, x, got, want));
    }
    if !rfcref::tuple_in_range(p, got) {
        return Err(format!("K'={} X={}: tuple {:?} out of range", p.Kp, x, got));
    }
    Ok(())
}

/// X with y(X) = target (A is odd, so X is unique modulo 2^32)
fn solve_y(p: &Params, target: u32) -> u32 {
    let mut a: u64 = 53591 + p.J as u64 * 997;
    if a % 2 == 0 {
        a += 1;
    }
    let b: u64 = 10267 * (p.J as u64 + 1);
    // inverse of a modulo 2^32 by Newton iteration
    let a32 = a as u32;
    let mut inv: u32 = a32; // correct to 3 bits
    for _ in 0..5 {
        inv = inv.wrapping_mul(2u32.wrapping_sub(a32.wrapping_mul(inv)));
    }
    assert_eq!(a32.wrapping_mul(inv), 1);
    let x = target.wrapping_sub(b as u32).wrapping_mul(inv);
    assert_eq!(rfcref::tuple_y(p, x), target);
    x
}

/// every (K' index, X) where y + i wraps for some i in {1,2} and X is reachable (X < 2^24 + K')
pub fn overflow_candidates() -> (Vec<(usize, u32)>, u64) {
    let mut v = vec![];
    let mut total = 0u64;
    for idx in 0..TABLE2.len() {
        let p = rfcref::params_by_index(idx);
        for target in [u32::MAX, u32::MAX - 1] {
            total += 1;
            let x = solve_y(&p, target);
            if (x as u64) < (1u64 << 24) + p.Kp as u64 {
                v.push((idx, x));
            }
        }
    }
    (v, total)
}

/// public-API path for one internal symbol id: produce the packet, consume it in a decode
fn check_public_api(idx: usize, x: u32, heavy: bool) -> Result<(), String> {
    let p = rfcref::params_by_index(idx);
    // consuming side, cheap: the constraint-matrix row of this ISI
    guarded(|| {
        let isis: Vec<u32> = (0..p.Kp).chain(std::iter::once(x)).collect();
        let _ = rq::generate_constraint_matrix::<rq::SparseBinaryMatrix>(p.Kp, &isis);
    })
    .map_err(|e| format!("K'={} ISI={}: generating the constraint row panicked: {}", p.Kp, x, e))?;
    if !heavy || x < p.Kp {
        return Ok(());
    }
    let k = p.Kp;
    let data = data_pos(k as usize);
    let cfg = Oti::new(k as u64, 1, 1, 1, 1);
    let r = guarded(|| {
        let enc = SourceBlockEncoder::new(0, &cfg, &data);
        let rep = enc.repair_packets(x - k, 1);
        let c = enc.verif_intermediate_symbols();
        (enc.source_packets(), rep, c)
    })
    .map_err(|e| format!("K'={} ISI={}: producing the repair packet panicked: {}", k, x, e))?;
    let (src, rep, c) = r;
    if rep.len() != 1 || rep[0].payload_id().encoding_symbol_id() != x {
        return Err(format!("K'={} ISI={}: wrong repair id", k, x));
    }
    let want = rfcref::enc_symbol(&p, &c, x);
    if rep[0].data() != &want[..] {
        return Err(format!("K'={} ISI={}: repair payload differs from Enc[C, Tuple]", k, x));
    }
    let mut pkts: Vec<EncodingPacket> = src.into_iter().skip(1).collect();
    pkts.push(rep[0].clone());
    let out = guarded(|| {
        let mut dec = SourceBlockDecoder::new(0, &cfg, k as u64);
        dec.decode(pkts)
    })
    .map_err(|e| format!("K'={} ISI={}: consuming the repair packet panicked: {}", k, x, e))?;
    if let Some(o) = out {
        if o != data {
            return Err(format!("K'={} ISI={}: decode returned wrong data", k, x));
        }
    }
    Ok(())
}

pub fn replay(case: &Value) -> Result<(), String> {
    if let Some(r) = replay_delegate("C15", case) {
        return r;
    }
    match case["kind"].as_str().unwrap_or("") {
        "params" => check_params(case["K"].as_u64().unwrap() as u32),
        "tuple" => check_tuple(&rfcref::params_by_index(case["idx"].as_u64().unwrap() as usize), case["X"].as_u64().unwrap() as u32),
        "api" => check_public_api(case["idx"].as_u64().unwrap() as usize, case["X"].as_u64().unwrap() as u32, true),
        k => Err(format!("unknown kind {}", k)),
    }
}

fn quick_indices() -> Vec<usize> {
    let want = [10u32, 12, 18, 26, 101, 248, 257, 989, 1050, 2195, 10899, 20778, 30654, 40398, 50511, 56403];
    want.iter().map(|k| TABLE2.iter().position(|r| r.0 == *k).unwrap()).collect()
}

/// the enumeration proper; runs in whichever build this binary is
fn enumerate(ctx: &Ctx, st: &Stats) {
    let tag = build_tag();
    // overflow candidates first
    let (cands, total_cands) = overflow_candidates();
    st.set_counter("overflow_candidates_solved", total_cands);
    st.set_counter("overflow_candidates_reachable", cands.len() as u64);
    par_for(cands.len(), |i| {
        let (idx, x) = cands[i];
        let p = rfcref::params_by_index(idx);
        st.eval(2);
        st.nontriv(1);
        if let Err(m) = check_tuple(&p, x) {
            st.violation(format!("tuple:{}:{}", p.Kp, x), m, json!({"kind":"tuple","idx":idx,"X":x,"Kp":p.Kp}));
        }
        // the heavy public-API round (encoder + decode) costs O(L^3) in the checked build: thorough tier only there
        let heavy = !is_checked_build() || ctx.thorough();
        if let Err(m) = check_public_api(idx, x, heavy) {
            st.violation(format!("api:{}:{}", p.Kp, x), m, json!({"kind":"api","idx":idx,"X":x,"Kp":p.Kp}));
        }
        st.sample(json!({"kind":"overflow-candidate","Kp":p.Kp,"X":x,"y":rfcref::tuple_y(&p, x),"tuple":format!("{:?}", rfcref::tuple(&p, x)),"build":tag}));
    });
    // all K
    if !ctx.flag("--tuples-only") {
        par_for_chunk(56404, 512, |k| {
            st.eval(1);
            if let Err(m) = check_params(k as u32) {
                st.violation(format!("params:{}", k), m, json!({"kind":"params","K":k}));
            }
        });
        st.set_counter("K_values", 56404);
        // the same look-ups in other orders on ONE thread (descending; every table size right after the next row;
        // zig-zag around every row boundary): the answers must not depend on what was asked before
        {
            let mut orders: Vec<u32> = (0..=56403u32).rev().collect();
            for i in 0..TABLE2.len() {
                let kp = TABLE2[i].0;
                let next = if i + 1 < TABLE2.len() { TABLE2[i + 1].0 } else { kp };
                let prev = if i > 0 { TABLE2[i - 1].0 } else { 0 };
                orders.extend_from_slice(&[next, kp, kp + 1, kp, prev + 1, kp, prev.max(1), kp, next.min(kp + 1), prev.max(1)]);
            }
            orders.retain(|&k| k <= 56403);
            let mut bad = 0;
            for (pos, &k) in orders.iter().enumerate() {
                st.eval(1);
                if let Err(m) = check_params(k) {
                    bad += 1;
                    if bad <= 3 {
                        // not replayable in isolation by construction: the context re-run decides
                        st.violation(format!("params-order:{}:{}", pos, k), format!("{} (look-up number {} of a descending / zig-zag sequence on one thread; the same look-up in ascending order is correct)", m, pos), json!({"kind":"params","K":k}));
                    }
                }
            }
            st.set_counter("K_lookups_in_other_orders", orders.len() as u64);
        }
        st.eval(1);
        if guarded(|| rq::extended_source_block_symbols(56404)).is_ok() {
            st.violation("params:56404".into(), "K = 56404 was not refused".into(), json!({"kind":"params","K":56404}));
        }
    }
    // all tuples
    let idxs: Vec<usize> = if ctx.quick() { quick_indices() } else { (0..TABLE2.len()).collect() };
    const CHUNK: u64 = 1 << 19;
    let mut work: Vec<(usize, u64, u64)> = vec![];
    for &idx in &idxs {
        let n = (1u64 << 24) + TABLE2[idx].0 as u64;
        let mut s = 0;
        while s < n {
            work.push((idx, s, (s + CHUNK).min(n)));
            s += CHUNK;
        }
    }
    let d_hist: Vec<std::sync::atomic::AtomicU64> = (0..32).map(|_| std::sync::atomic::AtomicU64::new(0)).collect();
    par_for(work.len(), |w| {
        let (idx, s, e) = work[w];
        let p = rfcref::params_by_index(idx);
        let mut bad = 0;
        let mut hist = [0u64; 32];
        for x in s..e {
            match check_tuple(&p, x as u32) {
                Ok(()) => {}
                Err(m) => {
                    bad += 1;
                    if bad <= 2 {
                        st.violation(format!("tuple:{}:{}", p.Kp, x), m, json!({"kind":"tuple","idx":idx,"X":x,"Kp":p.Kp}));
                    } else {
                        st.violation_count.fetch_add(1, std::sync::atomic::Ordering::Relaxed);
                    }
                }
            }
            if x % 4096 == 0 {
                hist[rfcref::tuple(&p, x as u32).0 as usize] += 1;
            }
        }
        for d in 0..32 {
            if hist[d] > 0 {
                d_hist[d].fetch_add(hist[d], std::sync::atomic::Ordering::Relaxed);
            }
        }
        st.eval(e - s);
    });
    let tuples: u64 = work.iter().map(|w| w.2 - w.1).sum();
    st.set_counter("tuples", tuples);
    st.set_counter("kprime_complete", idxs.len() as u64);
    let degs = d_hist.iter().filter(|a| a.load(std::sync::atomic::Ordering::Relaxed) > 0).count() as u64;
    st.set_counter("distinct_degrees_seen", degs);
    // distinct non-trivial cases: one per (K', X) whose tuple was compared (all distinct by construction)
    st.nontriv(tuples);
}

pub fn run(ctx: &Ctx) -> i32 {
    let st = Stats::new();
    enumerate(ctx, &st);
    if ctx.flag("--child") {
        return child_emit(&st);
    }
    // the same enumeration in the overflow-checking build
    let mut args = vec![];
    if ctx.flag("--tuples-only") {
        args.push("--tuples-only".to_string());
    }
    run_child_and_merge(ctx, &st, "RQ_BIN_CHECKED", "checked", &args);
    let p = rfcref::params_for_k(10);
    st.sample(json!({"kind":"tuple","Kp":10,"X":0,"impl":format!("{:?}", rq::intermediate_tuple(0, p.W, p.J, p.P1)),"reference":format!("{:?}", rfcref::tuple(&p, 0))}));
    st.sample(json!({"kind":"params","K":56403,"reference":format!("{:?}", rfcref::params_for_k(56403))}));
    let all = ctx.thorough();
    finish(ctx, &st, Finish {
        level: "exploration",
        rule: format!("all K in 0..=56403: 8 parameter functions vs reference + primality/ordering relations, in ascending order on 16 threads and again on one thread in descending and zig-zag order around every table row (the answer must not depend on earlier look-ups); tuples: every X in 0..2^24+K' for {} K' values through the real intermediate_tuple vs reference Tuple[K',X] and range conditions, in the release build and again in the debug-assertions+overflow-checks build (counters prefixed checked/); first the algebraically solved inputs where y+i wraps 2^32 (2 per K', reachable ones also through repair_packets / constraint-matrix generation / decode). Every (build, K', X) is a distinct case; evaluations counts both builds.", if all { "all 477".to_string() } else { "16 (10,12,18,26,101,248,257,989,1050,2195,10899,20778,30654,40398,50511,56403)".to_string() }),
        exhaustive: all,
        assumptions: vec!["reference tables V0..V3, Table 2 and the degree table are transcribed from the pinned commit (no RFC text on the image)".into()],
        extra: Map::new(),
        must_be_nonzero: vec!["tuples", "K_values", "checked/tuples", "overflow_candidates_reachable", "distinct_degrees_seen"],
    }, replay)
}
