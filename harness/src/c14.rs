//! C14 — derived transmission parameters are those of RFC 6330 4.3.
use crate::common::*;
use crate::rfcref;
use raptorq::verif as rq;
use raptorq::{Decoder, Encoder, EncoderBuilder, ObjectTransmissionInformation as Oti};
use serde_json::{json, Map, Value};
use std::collections::BTreeMap;

const DEFAULT_WS: u64 = 10 * 1024 * 1024;

fn impl_derive(f: u64, p: u16, ws: u64) -> Result<(u64, u64, u64, u64), String> {
    guarded(|| rq::generate_encoding_parameters(f, p, ws)).map(|o| (o.symbol_size() as u64, o.source_blocks() as u64, o.sub_blocks() as u64, o.symbol_alignment() as u64))
}

/// Ok(Some(derived)) if a valid configuration exists and the implementation agrees, Ok(None) if none exists
fn check_point(f: u64, p: u16, ws: u64) -> Result<Option<(u64, u64, u64, u64)>, String> {
    let want = match rfcref::derive(f, p as u64, ws) {
        None => return Ok(None),
        Some(w) => w,
    };
    match impl_derive(f, p, ws) {
        Err(e) => Err(format!("F={} P={} WS={}: valid configuration (T,Z,N,Al)={:?} exists but derivation panicked: {}", f, p, ws, want, e)),
        Ok(got) => {
            if got != want {
                Err(format!("F={} P={} WS={}: derived (T,Z,N,Al)={:?}, RFC 4.3 gives {:?}", f, p, ws, got, want))
            } else {
                Ok(Some(got))
            }
        }
    }
}

/// public API agrees with the hooked derivation, and the derived configuration round-trips
fn check_public(f: u64, p: u16, ws: u64) -> Result<(), String> {
    let want = match rfcref::derive(f, p as u64, ws) {
        None => return Ok(()),
        Some(w) => w,
    };
    let data = data_pos(f as usize);
    let enc = guarded(|| {
        let mut b = EncoderBuilder::new();
        b.set_max_packet_size(p);
        b.set_decoder_memory_requirement(ws);
        b.build(&data)
    })
    .map_err(|e| format!("F={} P={} WS={}: EncoderBuilder::build panicked: {}", f, p, ws, e))?;
    let cfg = enc.get_config();
    let got = (cfg.symbol_size() as u64, cfg.source_blocks() as u64, cfg.sub_blocks() as u64, cfg.symbol_alignment() as u64);
    if got != want || cfg.transfer_length() != f {
        return Err(format!("F={} P={} WS={}: EncoderBuilder config {:?} (F {}), RFC 4.3 gives {:?}", f, p, ws, got, cfg.transfer_length(), want));
    }
    if ws == DEFAULT_WS {
        let d = guarded(|| Oti::with_defaults(f, p)).map_err(|e| format!("with_defaults({}, {}) panicked: {}", f, p, e))?;
        if d != cfg {
            return Err(format!("with_defaults({}, {}) = {:?} differs from builder {:?}", f, p, d, cfg));
        }
        let e2 = guarded(|| Encoder::with_defaults(&data, p)).map_err(|e| format!("Encoder::with_defaults panicked: {}", e))?;
        if e2.get_config() != cfg {
            return Err(format!("Encoder::with_defaults({}, {}) config differs", f, p));
        }
    }
    // round trip: all source packets; then first source packet of every block replaced by repair packets
    let r = guarded(|| {
        let pk = enc.get_encoded_packets(2);
        let mut dec = Decoder::new(cfg);
        let mut out = None;
        for x in pk.iter() {
            let k = x.payload_id().encoding_symbol_id();
            let _ = k;
            out = dec.decode(x.clone());
            if out.is_some() { break; }
        }
        let mut dec2 = Decoder::new(cfg);
        let mut out2 = None;
        for x in pk.iter() {
            if x.payload_id().encoding_symbol_id() == 0 { continue; }
            out2 = dec2.decode(x.clone());
            if out2.is_some() { break; }
        }
        (out, out2)
    })
    .map_err(|e| format!("F={} P={} WS={}: round trip panicked: {}", f, p, ws, e))?;
    if r.0.as_deref() != Some(&data[..]) {
        return Err(format!("F={} P={} WS={}: encoder/decoder built from derived parameters {:?} do not round-trip", f, p, ws, want));
    }
    if let Some(o) = r.1 {
        if o != data {
            return Err(format!("F={} P={} WS={}: decode with erasures returned wrong data", f, p, ws));
        }
    }
    Ok(())
}

pub fn replay(case: &Value) -> Result<(), String> {
    let f = case["F"].as_u64().unwrap();
    let p = case["P"].as_u64().unwrap() as u16;
    let ws = case["WS"].as_u64().unwrap();
    match case["kind"].as_str().unwrap_or("") {
        "derive" => check_point(f, p, ws).map(|_| ()),
        "public" => check_public(f, p, ws),
        "builder" => builder_sequence(case["len"].as_u64().unwrap() as usize, case["code"].as_u64().unwrap()).map(|_| ()),
        "monotone" => {
            let ws2 = case["WS2"].as_u64().unwrap();
            let a = impl_derive(f, p, ws)?;
            let b = impl_derive(f, p, ws2)?;
            if ws < ws2 && b.1 > a.1 { Err(format!("F={} P={}: Z={} at WS={} but Z={} at larger WS={}", f, p, a.1, ws, b.1, ws2)) } else { Ok(()) }
        }
        k => Err(format!("unknown kind {}", k)),
    }
}

#[derive(Clone, Copy, Debug)]
enum BOp {
    P(u16),
    Ws(u64),
    Build(u64),
    CloneHere,
}

fn builder_menu() -> Vec<BOp> {
    let mut menu: Vec<BOp> = vec![];
    menu.extend([16u16, 40, 64, 1024].iter().map(|&p| BOp::P(p)));
    menu.extend([64u64, 640, 5000, 5200, 100_000, DEFAULT_WS].iter().map(|&w| BOp::Ws(w)));
    menu.push(BOp::Build(1000));
    menu.push(BOp::CloneHere);
    menu
}

/// one setter/build/clone sequence from EncoderBuilder::new(); after the last step build(F), F in {10,1000,10000},
/// must give the RFC derivation for the builder's CURRENT settings (what was set before must not matter)
fn builder_sequence(len: usize, code: u64) -> Result<u64, String> {
    let menu = builder_menu();
    let m = menu.len() as u64;
    let mut c = code;
    let mut ops = vec![];
    for _ in 0..len {
        ops.push(menu[(c % m) as usize]);
        c /= m;
    }
    let names: Vec<String> = ops.iter().map(|o| format!("{:?}", o)).collect();
    let r = guarded(|| -> Result<u64, String> {
        let mut b = EncoderBuilder::new();
        let (mut p, mut ws) = (1024u16, DEFAULT_WS);
        for op in &ops {
            match *op {
                BOp::P(x) => { b.set_max_packet_size(x); p = x; }
                BOp::Ws(x) => { b.set_decoder_memory_requirement(x); ws = x; }
                BOp::Build(f) => { let _ = guarded(|| b.build(&data_pos(f as usize))); }
                BOp::CloneHere => { b = b.clone(); }
            }
        }
        let mut n = 0u64;
        for f in [10u64, 1000, 10_000] {
            let want = match rfcref::derive(f, p as u64, ws) {
                None => continue,
                Some(w) => w,
            };
            let enc = guarded(|| b.build(&data_pos(f as usize))).map_err(|e| format!("build(F={}) with P={} WS={} panicked: {}", f, p, ws, e))?;
            let cfg = enc.get_config();
            let got = (cfg.symbol_size() as u64, cfg.source_blocks() as u64, cfg.sub_blocks() as u64, cfg.symbol_alignment() as u64);
            n += 1;
            if got != want || cfg.transfer_length() != f {
                return Err(format!("builder settings P={} WS={}, F={}: derived (T,Z,N,Al) = {:?}, RFC 4.3 gives {:?}", p, ws, f, got, want));
            }
        }
        Ok(n)
    });
    match r {
        Ok(Ok(n)) => Ok(n),
        Ok(Err(m)) | Err(m) => Err(format!("EncoderBuilder::new() then {:?}: {}", names, m)),
    }
}

fn builder_histories(ctx: &Ctx, st: &Stats) {
    let depth = if ctx.quick() { 3 } else { 4 };
    let m = builder_menu().len() as u64;
    let mut seqs: Vec<(usize, u64)> = vec![];
    for d in 1..=depth {
        for code in 0..m.pow(d as u32) {
            seqs.push((d, code));
        }
    }
    par_for_chunk(seqs.len(), 64, |i| {
        let (d, code) = seqs[i];
        match builder_sequence(d, code) {
            Ok(n) => { st.eval(n); st.count("builder_history_builds", n); }
            Err(msg) => st.violation(format!("builder:{}:{}", d, code), msg, json!({"kind":"builder","len":d,"code":code})),
        }
    });
    st.set_counter("builder_histories", seqs.len() as u64);
    st.sample(json!({"kind":"builder","menu":"set_max_packet_size {16,40,64,1024}, set_decoder_memory_requirement {64,640,5000,5200,100000,10MiB}, build, clone","depth":depth,"judged":"after the last step: build(F) for F in {10,1000,10000} = RFC derivation for the current settings"}));
}

fn al_of(p: u16) -> u64 { if p >= 64 { 8 } else { 1 } }

fn n_set(nmax: u64) -> Vec<u64> {
    let mut v: Vec<u64> = (1..=nmax.min(6)).collect();
    for x in [nmax, nmax.saturating_sub(1), nmax / 2, 16, 17] {
        if x >= 1 && x <= nmax { v.push(x); }
    }
    v.sort_unstable();
    v.dedup();
    v
}

fn ws_values(p: u16) -> Vec<u64> {
    let al = al_of(p);
    let t = (p as u64 / al) * al;
    let nmax = t / (al * al);
    let mut v: Vec<u64> = vec![0, 1, 9, 10, DEFAULT_WS, u64::MAX, u64::MAX - 1, 1 << 32, (1 << 32) + 10, 1 << 40];
    for n in n_set(nmax.max(1)) {
        let x = (t + al * n - 1) / (al * n);
        for kp in [10u64, 12, 101, 1050, 56403] {
            let base = al * x * kp;
            for d in [-1i64, 0, 1] { v.push((base as i64 + d) as u64); }
        }
        if n == 1 || n == nmax {
            // quotient WS/(Al*x) around 2^32 and 2^32 + K' (narrowing cast)
            let q = al as u128 * x as u128;
            for m in [(1u128 << 32), (1u128 << 32) + 10, (1u128 << 32) + 56403, (1u128 << 33)] {
                for d in [-1i128, 0, 1] {
                    let w = (q * m) as i128 + d;
                    if w >= 0 && w <= u64::MAX as i128 { v.push(w as u64); }
                }
            }
        }
    }
    v.sort_unstable();
    v.dedup();
    v
}

fn f_values(p: u16) -> Vec<u64> {
    let al = al_of(p);
    let t = (p as u64 / al) * al;
    let mut v = vec![1, t.saturating_sub(1).max(1), t, t + 1, 10 * t, 10 * t + 1, 11 * t, 12 * t + 1, 1000 * t + 3, 56403 * t - 1, 56403 * t, 56403 * t + 1, 2 * 56403 * t + 1, 56403 * 255 * t - 1, 56403 * 255 * t, 56403 * 255 * t + 1];
    v.sort_unstable();
    v.dedup();
    v
}

fn p_values(ctx: &Ctx) -> Vec<u16> {
    let mut v: Vec<u32> = vec![];
    let dense_to = if ctx.quick() { 1000 } else { 2100 };
    v.extend(1..=dense_to);
    for k in 7..=16u32 {
        for d in [-9i64, -8, -7, -2, -1, 0, 1, 2, 7, 8, 9] {
            let x = (1i64 << k) + d;
            if x >= 1 && x <= 65535 { v.push(x as u32); }
        }
    }
    v.extend_from_slice(&[1280, 1400, 1472, 1500, 9000, 10000, 50000, 65519, 65520, 65521, 65527, 65528, 65529, 65534, 65535]);
    if ctx.thorough() {
        let mut x = 2100u32;
        while x < 65535 { v.push(x); v.push(x + 7); x += 997; }
    }
    v.sort_unstable();
    v.dedup();
    v.into_iter().map(|x| x as u16).collect()
}

pub fn run(ctx: &Ctx) -> i32 {
    let st = Stats::new();
    let ps = p_values(ctx);
    par_for(ps.len(), |pi| {
        let p = ps[pi];
        let wss = ws_values(p);
        let mut local: BTreeMap<&'static str, u64> = BTreeMap::new();
        let mut evals = 0u64;
        let mut bad = 0;
        for f in f_values(p) {
            let mut prev: Option<(u64, u64)> = None; // (ws, Z) of the previous valid point
            for &ws in &wss {
                evals += 1;
                match check_point(f, p, ws) {
                    Ok(None) => *local.entry("no_valid_configuration").or_insert(0) += 1,
                    Ok(Some(d)) => {
                        *local.entry("valid_and_equal").or_insert(0) += 1;
                        if d.1 > 1 { *local.entry("Z>1").or_insert(0) += 1; }
                        if d.2 > 1 { *local.entry("N>1").or_insert(0) += 1; }
                        if let Some((pws, pz)) = prev {
                            if d.1 > pz {
                                st.violation(format!("monotone:{}:{}:{}:{}", f, p, pws, ws), format!("F={} P={}: Z={} at WS={} but Z={} at larger WS={}", f, p, pz, pws, d.1, ws), json!({"kind":"monotone","F":f,"P":p,"WS":pws,"WS2":ws}));
                            }
                        }
                        prev = Some((ws, d.1));
                    }
                    Err(m) => {
                        bad += 1;
                        *local.entry("disagree").or_insert(0) += 1;
                        if bad <= 2 {
                            st.violation(format!("derive:{}:{}:{}", f, p, ws), m, json!({"kind":"derive","F":f,"P":p,"WS":ws}));
                        } else {
                            st.violation_count.fetch_add(1, std::sync::atomic::Ordering::Relaxed);
                        }
                    }
                }
            }
        }
        st.eval(evals);
        st.merge_counters(&local);
    });
    // public-API binding and round trip on the sub-grid F <= 4096
    let mut pub_cases: Vec<(u64, u16, u64)> = vec![];
    for p in [1u16, 2, 3, 5, 8, 16, 63, 64, 72, 80, 128, 136] {
        let al = al_of(p);
        let t = (p as u64 / al) * al;
        let nmax = (t / (al * al)).max(1);
        let mut wss = vec![DEFAULT_WS];
        for n in [1, 2, nmax] {
            if n > nmax { continue; }
            let x = (t + al * n - 1) / (al * n);
            for kp in [10u64, 12, 18] { wss.push(al * x * kp); wss.push(al * x * kp + 1); }
        }
        wss.sort_unstable();
        wss.dedup();
        for f in [1u64, t, t + 1, 10 * t + 1, 25 * t + 3, 100 * t + 7, 4096] {
            if f > 4096 { continue; }
            for &ws in &wss { pub_cases.push((f, p, ws)); }
        }
    }
    pub_cases.sort_unstable();
    pub_cases.dedup();
    builder_histories(ctx, &st);
    let pub_valid = std::sync::atomic::AtomicU64::new(0);
    par_for(pub_cases.len(), |i| {
        let (f, p, ws) = pub_cases[i];
        st.eval(1);
        if rfcref::derive(f, p as u64, ws).is_some() { pub_valid.fetch_add(1, std::sync::atomic::Ordering::Relaxed); }
        if let Err(m) = check_public(f, p, ws) {
            st.violation(format!("public:{}:{}:{}", f, p, ws), m, json!({"kind":"public","F":f,"P":p,"WS":ws}));
        }
    });
    st.set_counter("public_api_points_valid", pub_valid.load(std::sync::atomic::Ordering::Relaxed));
    st.nontriv(st.counter("valid_and_equal"));
    for (f, p, ws) in [(64000u64, 64u16, (1u64 << 32) * 64), (11, 1, (1 << 32) + 10), (5120, 1024, 640), (1, 2, 10), (1_000_000, 1400, DEFAULT_WS)] {
        st.sample(json!({"F":f,"P":p,"WS":ws,"reference":format!("{:?}", rfcref::derive(f, p as u64, ws)),"impl":format!("{:?}", impl_derive(f, p, ws))}));
    }
    finish(ctx, &st, Finish {
        level: "exploration",
        rule: format!("grid: P in {} values (1..={} complete, 2^k+-{{0,1,2,7,8,9}}, MTU-like and top values{}) x F in {{1,T-1,T,T+1,10T,10T+1,11T,12T+1,1000T+3,56403T+-1,2*56403T+1,56403*255*T+{{-1,0,1}}}} x WS in breakpoints Al*ceil(T/(Al*n))*K'+{{-1,0,1}} for n in {{1..6,16,17,Nmax/2,Nmax-1,Nmax}}, K' in {{10,12,101,1050,56403}}, quotient WS/(Al*x) around 2^32, 0,1,9,10, 10MiB, 2^32, 2^40, 2^64-1; compared with a u128 reference of RFC 6330 4.3 only where it says a valid configuration exists; Z monotone along WS; public API (EncoderBuilder, with_defaults) bound to the hooked derivation and round-tripped on {} points with F<=4096. EncoderBuilder as a state machine: every sequence of up to 3 (thorough 4) setter / build / clone calls over 4 packet sizes and 6 budgets, the configuration built afterwards must be the derivation for the current settings. distinct_nontrivial = points with a valid configuration where all four values were compared.", ps.len(), if ctx.quick() { 1000 } else { 2100 }, if ctx.thorough() { ", every 997th above" } else { "" }, pub_cases.len()),
        exhaustive: false,
        assumptions: vec!["Al = SS = 8 for P >= 64, else 1 (the implementation's choice; RFC leaves Al, SS to the application)".into(), "a configuration is valid iff some K' fits the budget for n = Nmax, Z <= 255 and T >= Al".into(), "F and WS off the breakpoint sets are not enumerated (piecewise constant derivation)".into()],
        extra: Map::new(),
        must_be_nonzero: vec!["valid_and_equal", "no_valid_configuration", "Z>1", "N>1", "public_api_points_valid"],
    }, replay)
}
