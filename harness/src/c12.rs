//! C12 — unsafe code never touches memory outside its buffers.
//! Monitors: page-heap allocator (every heap operand flush against a PROT_NONE page, at its end or at its
//! start) in child processes; canaries; index-range facts. The enumerations are C11's kernel grid, the
//! complete slab pair grid and whole encode/decode workloads.
use crate::codec::*;
use crate::common::*;
use crate::kern;
use crate::pageheap;
use raptorq::verif as rq;
use raptorq::{SourceBlockDecoder, SourceBlockEncoder, Symbol, SymbolSlab};
use serde_json::{json, Map, Value};
use std::io::Write;

// ---------------------------------------------------------------- (2) slab pair operations
fn slab_case(count: usize, size: usize, dest: usize, src: usize, mapping: u8, op: u8) -> Result<(), String> {
    // mapping: 0 none, 1 reversed permutation, 2 rotation, 3 decoder-style: logical 0..count-1 -> physical inside a longer slab
    let phys_count = if mapping == 3 { count + 3 } else { count };
    let mut slab = SymbolSlab::with_zeros(phys_count, size);
    for i in 0..phys_count {
        let v = data_lcg(i as u64 + 1, size);
        slab.get_mut(i).copy_from_slice(&v);
    }
    let order: Option<Vec<usize>> = match mapping {
        0 => None,
        1 => Some((0..count).rev().collect()),
        2 => Some((0..count).map(|i| (i + 1) % count).collect()),
        _ => Some((0..count).map(|i| (i * 2 + 1) % phys_count).collect::<Vec<_>>()),
    };
    let order = match order {
        Some(mut o) => {
            // mapping 3 must be injective for the check below to be meaningful
            o.dedup();
            let mut seen = vec![false; phys_count];
            let mut ok = true;
            for &x in &o {
                if seen[x] { ok = false; }
                seen[x] = true;
            }
            if !ok || o.len() != count { (0..count).map(|i| phys_count - 1 - i).collect() } else { o }
        }
        None => (0..count).collect(),
    };
    if mapping != 0 {
        slab.set_reorder(order.clone());
    }
    let before: Vec<Vec<u8>> = (0..phys_count).map(|i| data_lcg(i as u64 + 1, size)).collect();
    let sc = rq::Octet::new(0x53);
    let logical_n = count;
    // pair operations (unsafe paired borrow) must refuse aliasing and out-of-range indices;
    // the single-symbol operation goes through safe slicing: out of range must be refused unless the
    // symbols are empty and there is no mapping (then the empty slice at offset 0 is harmless)
    let must_panic = if op == 2 { dest >= logical_n && (size > 0 || mapping != 0) } else { dest >= logical_n || src >= logical_n || dest == src };
    let r = guarded(|| match op {
        0 => slab.add_assign(dest, src),
        1 => slab.fma(dest, src, &sc),
        _ => slab.mulassign_scalar(dest, &sc),
    });
    if must_panic {
        if r.is_ok() {
            return Err(format!("slab({} symbols of {} bytes, mapping {}) op {} dest {} src {}: out-of-range or aliasing pair was not refused", count, size, mapping, op, dest, src));
        }
        return Ok(());
    }
    if op == 2 && dest >= logical_n {
        return r.map_err(|p| format!("panic {}", p));
    }
    r.map_err(|p| format!("slab({}x{}, mapping {}) op {} dest {} src {}: panic {}", count, size, mapping, op, dest, src, p))?;
    let pd = order[dest];
    let ps = order[src.min(count - 1)];
    let want: Vec<u8> = match op {
        0 => before[pd].iter().zip(before[ps].iter()).map(|(a, b)| a ^ b).collect(),
        1 => before[pd].iter().zip(before[ps].iter()).map(|(a, b)| a ^ crate::rfcref::gf::mul(*b, 0x53)).collect(),
        _ => before[pd].iter().map(|a| crate::rfcref::gf::mul(*a, 0x53)).collect(),
    };
    // read back through the logical interface and compare every physical symbol
    if slab.get(dest) != &want[..] {
        return Err(format!("slab({}x{}, mapping {}) op {} dest {} src {}: wrong result", count, size, mapping, op, dest, src));
    }
    let mut clone = slab.clone();
    clone.set_reorder((0..phys_count).collect());
    for i in 0..phys_count {
        if i != pd && clone.get(i) != &before[i][..] {
            return Err(format!("slab({}x{}, mapping {}) op {} dest {} src {}: physical symbol {} was modified", count, size, mapping, op, dest, src, i));
        }
    }
    Ok(())
}

/// the remaining public operations of Symbol / SymbolSlab (conversion, gather, bulk copy, the Symbol wrappers of
/// the three kernels) against plain vectors; symbol size 0 is skipped where the API divides by it
fn slab_helpers(count: usize, size: usize) -> Result<u64, String> {
    let syms: Vec<Vec<u8>> = (0..count).map(|i| data_lcg(100 + i as u64, size)).collect();
    let r = guarded(|| -> Result<u64, String> {
        let mut n = 0u64;
        if size > 0 {
            // from_symbols / into_symbols, with and without a mapping
            let slab = SymbolSlab::from_symbols(syms.iter().map(|v| Symbol::new(v.clone())).collect(), size);
            if slab.len() != count || slab.symbol_size() != size {
                return Err("from_symbols: wrong shape".into());
            }
            for i in 0..count {
                if slab.get(i) != &syms[i][..] {
                    return Err(format!("from_symbols: symbol {} differs", i));
                }
            }
            let back: Vec<Vec<u8>> = slab.clone().into_symbols().into_iter().map(|x| x.into_bytes()).collect();
            if back != syms {
                return Err("into_symbols(from_symbols(x)) != x".into());
            }
            let mut mapped = slab.clone();
            let order: Vec<usize> = (0..count).rev().collect();
            mapped.set_reorder(order.clone());
            let back: Vec<Vec<u8>> = mapped.into_symbols().into_iter().map(|x| x.into_bytes()).collect();
            let want: Vec<Vec<u8>> = order.iter().map(|&p| syms[p].clone()).collect();
            if back != want {
                return Err("into_symbols with a reorder mapping does not follow the mapping".into());
            }
            // gather: every index list of length <= 3 over the symbols (with repetition)
            let mut lists: Vec<Vec<usize>> = vec![vec![]];
            for a in 0..count {
                lists.push(vec![a]);
                for b in 0..count {
                    lists.push(vec![a, b]);
                    lists.push(vec![b, a, b]);
                }
            }
            for l in &lists {
                let g = slab.gather(l);
                if g.len() != l.len() {
                    return Err(format!("gather({:?}): {} symbols", l, g.len()));
                }
                for (pos, &src) in l.iter().enumerate() {
                    if g.get(pos) != &syms[src][..] {
                        return Err(format!("gather({:?}): position {} is not symbol {}", l, pos, src));
                    }
                }
                n += 1;
            }
            // copy_block_from: every (start, length) window; everything else untouched
            for start in 0..count {
                for len in 0..=(count - start) {
                    let mut z = SymbolSlab::with_zeros(count, size);
                    let block: Vec<u8> = (start..start + len).flat_map(|i| syms[i].clone()).collect();
                    z.copy_block_from(start, &block);
                    for i in 0..count {
                        let want: Vec<u8> = if i >= start && i < start + len { syms[i].clone() } else { vec![0; size] };
                        if z.get(i) != &want[..] {
                            return Err(format!("copy_block_from({}, {} symbols): symbol {} wrong", start, len, i));
                        }
                    }
                    n += 1;
                }
            }
        }
        // Symbol wrappers of the kernels
        let a0 = &syms[0];
        let b0 = &syms[count - 1];
        let z = Symbol::zero(size);
        if z.len() != size || z.is_empty() != (size == 0) || z.as_bytes().iter().any(|&x| x != 0) {
            return Err("Symbol::zero".into());
        }
        for c in [2u8, 0x53, 0xFF] {
            let mut x = Symbol::new(a0.clone());
            x.mulassign_scalar(&rq::Octet::new(c));
            let want: Vec<u8> = a0.iter().map(|&v| crate::rfcref::gf::mul(v, c)).collect();
            if x.as_bytes() != &want[..] {
                return Err(format!("Symbol::mulassign_scalar({:#04x}) size {}", c, size));
            }
            let mut x = Symbol::new(a0.clone());
            x.fused_addassign_mul_scalar(&Symbol::new(b0.clone()), &rq::Octet::new(c));
            let want: Vec<u8> = a0.iter().zip(b0.iter()).map(|(&v, &w)| v ^ crate::rfcref::gf::mul(w, c)).collect();
            if x.as_bytes() != &want[..] {
                return Err(format!("Symbol::fused_addassign_mul_scalar({:#04x}) size {}", c, size));
            }
            n += 2;
        }
        let mut x = Symbol::new(a0.clone());
        x += &Symbol::new(b0.clone());
        let want: Vec<u8> = a0.iter().zip(b0.iter()).map(|(&v, &w)| v ^ w).collect();
        if x.as_bytes() != &want[..] {
            return Err(format!("Symbol += Symbol size {}", size));
        }
        Ok(n + 1)
    });
    match r {
        Ok(x) => x.map_err(|m| format!("slab/symbol helpers ({} symbols of {} bytes): {}", count, size, m)),
        Err(p) => Err(format!("slab/symbol helpers ({} symbols of {} bytes): panic {}", count, size, p)),
    }
}

/// successive reorder mappings on one slab (a partial view, then a view that refers to rows the first one did
/// not, then the identity), with pair operations after each: a mapping is a view and must never give up rows
fn slab_reorder_history(count: usize, size: usize) -> Result<u64, String> {
    if count < 3 {
        return Ok(0);
    }
    let rows: Vec<Vec<u8>> = (0..count).map(|i| data_lcg(200 + i as u64, size)).collect();
    let r = guarded(|| -> Result<u64, String> {
        let mut n = 0u64;
        // mapping sequences: each mapping is injective, in range, and may cover fewer rows than the slab has
        let partial_low: Vec<usize> = (0..count - 2).collect();
        let partial_rev: Vec<usize> = (0..count - 1).rev().collect();
        let high_first: Vec<usize> = (0..count).rev().collect();
        let identity: Vec<usize> = (0..count).collect();
        let histories: Vec<Vec<&Vec<usize>>> = vec![
            vec![&partial_low, &identity],
            vec![&partial_low, &high_first],
            vec![&partial_rev, &partial_low, &identity],
            vec![&high_first, &partial_low, &high_first],
        ];
        for hist in &histories {
            let mut slab = SymbolSlab::with_zeros(count, size);
            let mut model = rows.clone();
            for i in 0..count {
                slab.get_mut(i).copy_from_slice(&rows[i]);
            }
            for map in hist {
                slab.set_reorder((*map).clone());
                let l = map.len();
                // pair operations over every ordered pair of the view
                for d in 0..l {
                    for sidx in 0..l {
                        if d == sidx {
                            continue;
                        }
                        slab.add_assign(d, sidx);
                        let (pd, ps) = (map[d], map[sidx]);
                        let srow = model[ps].clone();
                        for (x, y) in model[pd].iter_mut().zip(srow.iter()) {
                            *x ^= *y;
                        }
                        slab.fma(d, sidx, &rq::Octet::new(0x1D));
                        let srow = model[ps].clone();
                        for (x, y) in model[pd].iter_mut().zip(srow.iter()) {
                            *x ^= crate::rfcref::gf::mul(*y, 0x1D);
                        }
                        n += 2;
                    }
                }
                for i in 0..l {
                    if slab.get(i) != &model[map[i]][..] {
                        return Err(format!("after set_reorder({:?}) and pair operations: logical symbol {} differs from the plain-vector model", map, i));
                    }
                }
            }
            // finally look at every physical row
            slab.set_reorder((0..count).collect());
            for i in 0..count {
                if slab.get(i) != &model[i][..] {
                    return Err(format!("reorder history {:?}: physical row {} differs from the plain-vector model", hist, i));
                }
            }
        }
        Ok(n)
    });
    match r {
        Ok(x) => x.map_err(|m| format!("slab reorder history ({} symbols of {} bytes): {}", count, size, m)),
        Err(p) => Err(format!("slab reorder history ({} symbols of {} bytes): panic {}", count, size, p)),
    }
}

fn slab_grid(ctx: &Ctx, st: &Stats) {
    let sizes: Vec<usize> = if ctx.quick() { (0..=70).chain([127, 128, 129, 130]).collect() } else { (0..=130).collect() };
    let mut units: Vec<(usize, usize)> = vec![];
    for count in 1..=6usize {
        for &size in &sizes {
            units.push((count, size));
        }
    }
    par_for(units.len(), |u| {
        let (count, size) = units[u];
        let mut n = 0u64;
        for mapping in 0..4u8 {
            for op in 0..3u8 {
                for dest in 0..=count {
                    for src in 0..=count {
                        if op == 2 && src != 0 {
                            continue;
                        }
                        n += 1;
                        if let Err(m) = slab_case(count, size, dest, src, mapping, op) {
                            st.violation(format!("slab:{}:{}:{}:{}:{}:{}", count, size, dest, src, mapping, op), m, json!({"kind":"slab","count":count,"size":size,"dest":dest,"src":src,"mapping":mapping,"op":op}));
                        }
                    }
                }
            }
        }
        match slab_reorder_history(count, size) {
            Ok(h) => { n += h; st.count("slab_reorder_history_ops", h); }
            Err(m) => st.violation(format!("slabreorder:{}:{}", count, size), m, json!({"kind":"slabreorder","count":count,"size":size})),
        }
        match slab_helpers(count, size) {
            Ok(h) => { n += h; st.count("slab_helper_cases", h); }
            Err(m) => st.violation(format!("slabhelpers:{}:{}", count, size), m, json!({"kind":"slabhelpers","count":count,"size":size})),
        }
        st.eval(n);
        st.count("slab_pair_cases", n);
        st.nontriv(1);
    });
}

// ---------------------------------------------------------------- (4) whole workloads
fn workload(k: u32, t: u16, threshold: u32) -> Result<(), String> {
    let data = data_pos(k as usize * t as usize);
    let cfg = block_cfg(k, t);
    let r = guarded(|| {
        let enc = SourceBlockEncoder::verif_new_unplanned(0, &cfg, &data, threshold);
        let enc2 = SourceBlockEncoder::new(0, &cfg, &data);
        // (logical comparison: a sparse and a dense solve may order the slab differently)
        if enc.verif_intermediate_symbols() != enc2.verif_intermediate_symbols() || enc.repair_packets(0, 3) != enc2.repair_packets(0, 3) {
            return Err("planned and unplanned encoders differ".to_string());
        }
        let mut all = enc.source_packets();
        all.extend(enc.repair_packets(0, 14));
        for pat in 0..3 {
            let erased: Vec<u32> = match pat { 0 => vec![0], 1 => vec![k - 1, k / 2], _ => (0..k).collect() };
            let mut d = SourceBlockDecoder::new(0, &cfg, data.len() as u64);
            d.verif_set_sparse_threshold(threshold);
            let feed: Vec<_> = all.iter().filter(|p| !erased.contains(&p.payload_id().encoding_symbol_id())).cloned().collect();
            if feed.len() < k as usize { continue; }
            match d.decode(feed) {
                Some(o) if o != data => return Err(format!("erasure pattern {}: wrong data", pat)),
                _ => {}
            }
        }
        Ok(())
    });
    match r {
        Ok(x) => x.map_err(|m| format!("K={} T={} threshold={}: {}", k, t, threshold, m)),
        Err(p) => Err(format!("K={} T={} threshold={}: panic {}", k, t, threshold, p)),
    }
}

fn workload_list(ctx: &Ctx) -> Vec<(u32, u16, u32)> {
    let ks: Vec<u32> = if ctx.quick() { vec![10, 26] } else { small_ladder().into_iter().chain([248, 257]).collect() };
    let ts: Vec<u16> = if ctx.quick() { vec![1, 2, 7, 8, 9, 31, 32, 33, 63, 64, 65, 127] } else { (1..=70).chain([127, 128, 129]).collect() };
    let mut v = vec![];
    for &k in &ks {
        for &t in &ts {
            if k > 101 && t > 16 && ctx.quick() { continue; }
            v.push((k, t, if (k + t as u32) % 2 == 0 { 0 } else { u32::MAX }));
            if ctx.thorough() && t <= 9 { v.push((k, t, if (k + t as u32) % 2 == 0 { u32::MAX } else { 0 })); }
        }
    }
    v
}

// ---------------------------------------------------------------- child side
/// run one part inside this (possibly page-heap) process. `verbose`: print every unit before running it.
fn child_part(ctx: &Ctx, st: &Stats, part: &str, verbose: bool) {
    match part {
        "kernels" => {
            if verbose {
                // single-threaded, case by case, flushed: the last line names the faulting case
                let out = std::io::stdout();
                let quick = ctx.quick();
                let maxlen = if quick { 200 } else { 320 };
                for op in kern::Op::ALL {
                    for kind in kern::kinds() {
                        for len in 0..=maxlen {
                            for (dc, scn) in [("pos", "lcg"), ("ff", "ff"), ("lcg", "alt")] {
                                for s in [0u8, 1, 2, 0xFF] {
                                    let c = kern::Case { op, kind, len, doff: 0, soff: 0, dcontent: dc.into(), scontent: scn.into(), scalar: s };
                                    if !kern::scalar_ok(op, kind, s) { continue; }
                                    let mut o = out.lock();
                                    let _ = writeln!(o, "CASE {}", c.json());
                                    let _ = o.flush();
                                    drop(o);
                                    let d0 = kern::content(dc, len, 1);
                                    let s0 = if op == kern::Op::FmaBin { kern::bin_content(scn, len) } else { kern::content(scn, len, 2) };
                                    let _ = kern::eval_exact(&c, &d0, &s0);
                                }
                            }
                        }
                    }
                }
            } else {
                crate::c11::grid(ctx, st, true);
            }
        }
        "slab" => {
            if verbose {
                let sizes: Vec<usize> = (0..=130).collect();
                for count in 1..=6usize { for &size in &sizes {
                    println!("CASE {}", json!({"kind":"slabreorder","count":count,"size":size}));
                    let _ = std::io::stdout().flush();
                    let _ = slab_reorder_history(count, size);
                    println!("CASE {}", json!({"kind":"slabhelpers","count":count,"size":size}));
                    let _ = std::io::stdout().flush();
                    let _ = slab_helpers(count, size);
                    for mapping in 0..4u8 { for op in 0..3u8 { for dest in 0..=count { for src in 0..=count {
                    println!("CASE {}", json!({"kind":"slab","count":count,"size":size,"dest":dest,"src":src,"mapping":mapping,"op":op}));
                    let _ = std::io::stdout().flush();
                    let _ = slab_case(count, size, dest, src, mapping, op);
                }}}}}}
            } else {
                slab_grid(ctx, st);
            }
        }
        "workloads" => {
            let w = workload_list(ctx);
            if verbose {
                for &(k, t, th) in &w {
                    println!("CASE {}", json!({"kind":"workload","K":k,"T":t,"threshold":th}));
                    let _ = std::io::stdout().flush();
                    let _ = workload(k, t, th);
                }
            } else {
                par_for(w.len(), |i| {
                    let (k, t, th) = w[i];
                    st.eval(1);
                    st.nontriv(1);
                    st.count("workloads", 1);
                    if let Err(m) = workload(k, t, th) {
                        st.violation(format!("workload:{}:{}:{}", k, t, th), m, json!({"kind":"workload","K":k,"T":t,"threshold":th}));
                    }
                });
            }
        }
        _ => machinery_failure("unknown part"),
    }
    st.set_counter("pageheap_guarded_allocations", pageheap::ALLOCS.load(std::sync::atomic::Ordering::Relaxed));
    st.set_counter("pageheap_guarded_slots", pageheap::GUARDED.load(std::sync::atomic::Ordering::Relaxed));
    st.set_counter("pageheap_unguarded_allocations_over_cap", pageheap::UNGUARDED.load(std::sync::atomic::Ordering::Relaxed));
}

fn run_case_here(case: &Value) -> Result<(), String> {
    match case["kind"].as_str().unwrap_or("kernel") {
        "slab" => slab_case(case["count"].as_u64().unwrap() as usize, case["size"].as_u64().unwrap() as usize, case["dest"].as_u64().unwrap() as usize, case["src"].as_u64().unwrap() as usize, case["mapping"].as_u64().unwrap() as u8, case["op"].as_u64().unwrap() as u8),
        "slabreorder" => slab_reorder_history(case["count"].as_u64().unwrap() as usize, case["size"].as_u64().unwrap() as usize).map(|_| ()),
        "slabhelpers" => slab_helpers(case["count"].as_u64().unwrap() as usize, case["size"].as_u64().unwrap() as usize).map(|_| ()),
        "workload" => workload(case["K"].as_u64().unwrap() as u32, case["T"].as_u64().unwrap() as u16, case["threshold"].as_u64().unwrap() as u32),
        "index" => crate::c10::replay(&json!({"kind":"index","a":case["a"],"b":case["b"],"c":0})),
        "miri" => {
            let ctx = Ctx { id: "C12".into(), tier: Tier::Thorough, seed: 1, verif_dir: std::env::var("RQ_VERIF_DIR").unwrap_or_else(|_| "/verif".into()).into(), start: std::time::Instant::now(), threads: 1, args: vec![] };
            run_miri(&ctx).map(|_| ())
        }
        _ => kern::replay_case(case, true),
    }
}

// ---------------------------------------------------------------- Miri
fn run_miri(ctx: &Ctx) -> Result<u64, String> {
    let dir = ctx.verif_dir.join("harness-miri");
    let out = crate::common::child_command("cargo")
        .arg("+nightly")
        .arg("miri")
        .arg("run")
        .current_dir(&dir)
        .env("MIRIFLAGS", "-Zmiri-disable-isolation")
        .env("CARGO_NET_OFFLINE", "true")
        .env_remove("RUSTFLAGS")
        .env_remove("RQ_PAGEHEAP")
        .output()
        .unwrap_or_else(|e| machinery_failure(&format!("cannot run cargo miri: {}", e)));
    let so = String::from_utf8_lossy(&out.stdout).to_string();
    let se = String::from_utf8_lossy(&out.stderr).to_string();
    if let Some(l) = so.lines().find(|l| l.starts_with("MIRI-OK")) {
        if out.status.success() {
            return Ok(l.split("cases=").nth(1).and_then(|x| x.trim().parse().ok()).unwrap_or(1));
        }
    }
    if se.contains("Undefined Behavior") || se.contains("panicked at") {
        let msg: Vec<&str> = se.lines().filter(|l| l.contains("Undefined Behavior") || l.contains("panicked at") || l.trim_start().starts_with("-->")).take(4).collect();
        return Err(format!("Miri: {}", msg.join(" | ")));
    }
    machinery_failure(&format!("cargo miri did not run to completion: {}", se.lines().rev().take(8).collect::<Vec<_>>().join(" | ")))
}

// ---------------------------------------------------------------- parent side
fn spawn(ctx: &Ctx, mode: &str, part: &str, verbose: bool, threads: Option<usize>) -> std::process::Output {
    let exe = std::env::current_exe().unwrap();
    let mut cmd = crate::common::child_command(exe);
    cmd.arg("C12").arg("--tier").arg(ctx.tier_str()).arg("--verif-dir").arg(&ctx.verif_dir).arg("--child").arg("--part").arg(part);
    if verbose {
        cmd.arg("--verbose");
    }
    if mode != "off" {
        cmd.env("RQ_PAGEHEAP", mode);
    } else {
        cmd.env_remove("RQ_PAGEHEAP");
    }
    if let Some(t) = threads {
        cmd.env("VERIF_THREADS", t.to_string());
    }
    cmd.output().unwrap_or_else(|e| machinery_failure(&format!("cannot spawn guard child: {}", e)))
}

fn merge_child(st: &Stats, out: &std::process::Output, tag: &str) -> bool {
    let stdout = String::from_utf8_lossy(&out.stdout);
    let line = match stdout.lines().find(|l| l.starts_with("CHILD-RESULT ")) {
        Some(l) => l,
        None => return false,
    };
    let doc: Value = match serde_json::from_str(&line["CHILD-RESULT ".len()..]) {
        Ok(d) => d,
        Err(_) => return false,
    };
    st.eval(doc["evaluations"].as_u64().unwrap_or(0));
    st.nontriv(doc["nontrivial"].as_u64().unwrap_or(0));
    if let Some(c) = doc["counters"].as_object() {
        for (k, v) in c {
            st.count(&format!("{}/{}", tag, k), v.as_u64().unwrap_or(0));
        }
    }
    if let Some(v) = doc["violations"].as_array() {
        for x in v {
            let mut case = x["case"].clone();
            if let Some(m) = case.as_object_mut() {
                m.insert("pageheap".into(), json!(tag.split('/').next().unwrap_or("off")));
            }
            st.violation(format!("{}/{}", tag, x["key"].as_str().unwrap_or("?")), x["msg"].as_str().unwrap_or("").to_string(), case);
        }
    }
    true
}

pub fn replay(case: &Value) -> Result<(), String> {
    if let Some(r) = replay_delegate("C12", case) {
        return r;
    }
    let mode = case["pageheap"].as_str().unwrap_or("off");
    if mode == pageheap::mode_name() {
        return run_case_here(case);
    }
    // run the case in a child with the page heap of the recorded mode
    let exe = std::env::current_exe().map_err(|e| e.to_string())?;
    let mut cmd = crate::common::child_command(exe);
    cmd.arg("C12").arg("--replay-case").arg(case.to_string());
    if mode != "off" {
        cmd.env("RQ_PAGEHEAP", mode);
    } else {
        cmd.env_remove("RQ_PAGEHEAP");
    }
    let out = cmd.output().map_err(|e| e.to_string())?;
    if out.status.code() == Some(0) {
        return Ok(());
    }
    if out.status.code().is_none() {
        use std::os::unix::process::ExitStatusExt;
        return Err(format!("child killed by signal {:?} (memory access outside the operand buffers hit a guard page)", out.status.signal()));
    }
    let s = String::from_utf8_lossy(&out.stdout).to_string();
    Err(s.lines().find(|l| l.starts_with("REPLAY ")).unwrap_or("child replay failed").to_string())
}

pub fn run(ctx: &Ctx) -> i32 {
    let st = Stats::new();
    if ctx.flag("--child") {
        let part = ctx.opt("--part").unwrap_or_else(|| machinery_failure("--part missing"));
        child_part(ctx, &st, &part, ctx.flag("--verbose"));
        return child_emit(&st);
    }
    // (3) index-range facts for the unchecked table look-ups
    for a in 0..=255u8 {
        for b in 0..=255u8 {
            st.eval(1);
            if let Err(m) = crate::c10::replay(&json!({"kind":"index","a":a,"b":b,"c":0})) {
                st.violation(format!("index:{}:{}", a, b), m, json!({"kind":"index","a":a,"b":b,"pageheap":"off"}));
            }
        }
    }
    st.count("table_index_pairs", 65536);
    // (2) the slab grid runs only in the guard-page children below: a library that writes outside its rows must
    // fault there, not corrupt the heap of this process
    // (1), (2), (4) under the page heap, both placements
    for mode in ["end", "start"] {
        for part in ["kernels", "slab", "workloads"] {
            let out = spawn(ctx, mode, part, false, None);
            let tag = format!("{}/{}", mode, part);
            if merge_child(&st, &out, &tag) && out.status.success() {
                continue;
            }
            use std::os::unix::process::ExitStatusExt;
            let sig = out.status.signal();
            if sig.is_none() {
                machinery_failure(&format!("guard child {} exited with {:?} without result: {}", tag, out.status, String::from_utf8_lossy(&out.stderr).chars().take(1500).collect::<String>()));
            }
            // the child died: find the case in flight by a single-threaded verbose rerun
            let v = spawn(ctx, mode, part, true, Some(1));
            let so = String::from_utf8_lossy(&v.stdout).to_string();
            let last = so.lines().filter(|l| l.starts_with("CASE ")).last().map(|l| l[5..].to_string());
            if last.is_none() || (v.status.signal().is_none() && v.status.success()) {
                machinery_failure(&format!("guard child {} died with signal {:?} but the verbose single-threaded rerun did not ({:?})", tag, sig, v.status));
            }
            let mut case: Value = serde_json::from_str(&last.unwrap()).unwrap_or(json!({}));
            if let Some(m) = case.as_object_mut() {
                m.insert("pageheap".into(), json!(mode));
            }
            st.violation(format!("fault:{}:{}", tag, case), format!("memory access outside the operand buffers: the guard-page child died with signal {:?} (single-threaded re-run: {:?}) with every heap operand placed at the {} of its guard page; case in flight: {}", sig, v.status, mode, case), case);
            st.count(&format!("{}/died", tag), 1);
        }
    }
    // (5) Miri (stacked borrows) on fixed replays: thorough tier only (about one minute)
    if ctx.thorough() {
        match run_miri(ctx) {
            Ok(n) => {
                st.count("miri_cases", n);
                st.eval(n);
                st.nontriv(1);
            }
            Err(m) => st.violation("miri".into(), m, json!({"kind":"miri","pageheap":"off"})),
        }
    }
    st.sample(json!({"part":"kernels","pageheap":"end","case":{"op":"fused_addassign_mul_scalar_binary","kernel":"avx2","len":65,"note":"dest Vec<u8> of 65 bytes and the Vec<u64> behind the bit vector both end exactly at a PROT_NONE page"}}));
    st.sample(json!({"part":"slab","case":{"count":3,"size":9,"dest":2,"src":0,"mapping":"decoder-style into a longer slab","op":"fma"}}));
    st.sample(json!({"part":"workloads","pageheap":"start","case":{"K":26,"T":33,"threshold":"dense"}}));
    finish(ctx, &st, Finish {
        level: "exploration",
        rule: "C11's kernel grid (every kernel x operation x length x content x scalar, operands as exact-size heap objects), the complete SymbolSlab pair grid (1..6 symbols x sizes x all (dest,src) incl. equal and out-of-range x 4 mappings x 3 operations) and whole encode/decode workloads (dense and sparse, three erasure patterns) executed in child processes whose global allocator places EVERY heap allocation flush against a PROT_NONE page - once at its end, once at its start - so that any out-of-bounds read or write faults; plus the slab grid's aliasing/range refusals and unchanged-neighbour checks, and the index-range facts of the unchecked table look-ups for all 65536 pairs. distinct_nontrivial = grid units / workloads executed under a guard placement.".into(),
        exhaustive: false,
        assumptions: vec!["NEON cannot execute here".into(), "slots beyond 28000 are created without guard page (counted in pageheap_unguarded_allocations_over_cap)".into(), "stacked-borrows aliasing is judged by Miri only in the thorough tier, on fixed replays (complete slab pair grid up to 3x9, byte kernels at lengths 0..=40 x offsets 0..=8, one K=3 encode+decode)".into()],
        extra: Map::new(),
        must_be_nonzero: vec!["table_index_pairs", "end/kernels/calls_avx2", "end/kernels/pageheap_guarded_allocations", "start/kernels/calls_avx512", "end/slab/slab_pair_cases", "start/slab/slab_pair_cases", "end/workloads/workloads", "start/workloads/workloads"],
    }, replay)
}
