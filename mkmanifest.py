#!/usr/bin/env python3
"""Regenerates MANIFEST.json from the table below (single source of truth for the interface)."""
import json, subprocess

CHECKS = {
 "C10": dict(level="exploration", design="5/C10", technique="exhaustive enumeration of the finite domain (256^2 pairs, 256^3 triples, all table entries) against a shift-and-xor reference",
   text="Complete enumeration of the whole finite input domain of the field arithmetic and of every derived table entry against an independent polynomial-arithmetic reference; exhaustive, so the property is decided outright for this build.",
   note="Trusts only the field polynomial 0x11D / generator 2 (the reference checks that 2 generates all 255 units)."),
}
ALL = ["C%02d" % i for i in range(1, 20)]
PENDING_REASON = "check not built yet in this commit (work in progress; see DESIGN.md section 5 for the planned bounded-exhaustive check)"

def main():
    hooks = subprocess.run(["git", "-C", "/repo", "log", "--format=%H %s"], capture_output=True, text=True).stdout.splitlines()
    hook_commits = [l.split()[0] for l in hooks if " verif hooks:" in " " + l.split(" ", 1)[1] or l.split(" ", 1)[1].startswith("verif hooks")]
    m = {
      "version": 1,
      "setup_cmd": "./check setup",
      "hooks": {
        "guard": "--cfg raptorq_verif (plus --cfg raptorq_verif_loom for the loom build of C17)",
        "enable": "each harness workspace sets rustflags = [\"--cfg\", \"raptorq_verif\"] in its .cargo/config.toml and depends on raptorq by path = /repo, so every check rebuilds /repo's working tree with hooks on",
        "baseline_off_cmd": "./check baseline-off",
        "source_commits": hook_commits,
        "add_only": True,
      },
      "engines": [
        {"name": "rqcheck", "path": "harness/", "serves_properties": sorted(CHECKS), "kind_free_text": "own bounded-exhaustive explorers (state-graph DFS over clones of the real objects, complete grids / finite domains) with an independent RFC 6330 reference model (harness/src/rfcref.rs) run in lock-step"},
      ],
      "checks": [],
      "not_applicable": [],
      "notes": "Driver: ./check <ID> [--tier quick|thorough] [--replay FILE]; exit 0/1/2 as in DESIGN.md section 2. known_findings.txt lists genuine defects (fixed: lines suppress nothing).",
    }
    for pid in ALL:
        if pid in CHECKS:
            c = CHECKS[pid]
            m["checks"].append({
              "property_id": pid,
              "quick_cmd": "./check %s --tier quick" % pid,
              "thorough_cmd": "./check %s --tier thorough" % pid,
              "evidence_file": "/verif/evidence/%s.json" % pid,
              "replay_cmd_template": "./check %s --replay {path}" % pid,
              "engine": c.get("engine", "rqcheck"),
              "level_claimed": {"category": c["level"], "text": c["text"], "design_ref": "DESIGN.md section " + c["design"]},
              "level_note": c["note"],
              "technique": c["technique"],
            })
        else:
            m["not_applicable"].append({"property_id": pid, "reason": PENDING_REASON})
    json.dump(m, open("/verif/MANIFEST.json", "w"), indent=1)
    print("checks:", len(m["checks"]), "n/a:", len(m["not_applicable"]))

main()
