#!/usr/bin/env python3
"""Regenerates MANIFEST.json from the table below (single source of truth for the interface)."""
import json, subprocess

CHECKS = {
 "C11": dict(level="exploration", design="5/C11", technique="complete grid over kernels x operations x lengths x alignments x contents x scalars against element-wise reference arithmetic, in release and debug-assertions builds",
   text="Every kernel compiled for x86-64 (AVX-512, AVX2, SSSE3, portable; each called individually through the hook, so dead code on this CPU is executed) and the dispatcher, every length 0..=320 with destination offsets 0..63 and 7 source offsets, every length 321..=1600 and around 2048/4096 (thorough 2200 and around 8192/65536) with boundary offsets, all 256 scalars on boundary lengths, rotations giving every lane every byte value, one-hot positions and packed bit vectors with every padding-bit count; results must equal element-wise GF(256) arithmetic and nothing outside the destination may change.",
   note="NEON cannot execute here; lengths above 1600 (thorough 2200) only around powers of two."),
 "C12": dict(level="exploration", design="5/C12", technique="the C11 kernel grid, the complete slab pair grid and whole encode/decode workloads enumerated under a guard-page allocator (every heap operand flush against a PROT_NONE page, at its end and at its start) in child processes",
   text="Out-of-bounds accesses are made observable rather than inferred: a page-heap global allocator places every heap allocation against an inaccessible page; the complete kernel grid, all (dest, src) pairs of 1..6-symbol slabs with four mappings, successive reorder mappings with pair operations after each, the remaining public Symbol/SymbolSlab operations, and encode/decode workloads run under both placements; a fault is a violation with the case in flight as replay. Aliasing/range refusals and the index-range facts of the unchecked table look-ups are enumerated completely.",
   note="Stacked-borrows aliasing is judged by Miri on fixed replays in the thorough tier only (harness-miri); NEON cannot execute."),
 "C13": dict(level="exploration", design="5/C13", technique="exhaustive enumeration of all 2^32 payload IDs and per-field-complete OTI grid against reference layouts",
   text="Every 4-byte payload ID (thorough: all 2^32; quick: 8 SBNs x all 2^24 ESIs) is parsed, read back and re-serialised and compared with the RFC layout written independently; OTI fields are each enumerated over their whole width against three backgrounds, packets over payload lengths 0..=300 and 65535.",
   note="The 88-bit OTI space is covered per field (each output byte is a function of one field, which the grid verifies lane by lane), not as a product. Big-endian RFC 3.2/3.3 layout as written in rfcref."),
 "C14": dict(level="exploration", design="5/C14", technique="complete breakpoint grid (P x F x WS) against a u128 reference of RFC 6330 4.3, plus public-API binding and round trips",
   text="Every point of a grid built from the breakpoints of the derivation (all n/K' thresholds of the memory budget, 2^32 quotient boundaries, block-count limits) is derived by the real code and by an independent u128 reference and must agree wherever a valid configuration exists; Z must be monotone in the budget; derived configurations round-trip through Encoder/Decoder; the EncoderBuilder is explored as a state machine (every sequence of up to 3/4 setter, build and clone calls: the result may depend on the current settings only).",
   note="F and WS between breakpoints are not enumerated (the derivation is piecewise constant); Al=SS=8 for P>=64 else 1 is taken as the implementation's documented choice."),
 "C15": dict(level="exploration", design="5/C15", technique="exhaustive enumeration of all K and all (K',X) tuples in the release and the overflow-checking build against an independent reference",
   text="All K in 0..=56403 (ascending on 16 threads, and descending / zig-zag around every table row on one thread: the answer must not depend on earlier look-ups) and (thorough) all ~8*10^9 (K', X) pairs are pushed through the real tuple generator in both overflow-check settings and compared with an independent Rand/Deg/Tuple; the algebraically solved y+i wrap-around inputs come first and also go through repair_packets / decode.",
   note="Reference tables V0-V3, Table 2, degree table are transcribed from the pinned commit (no RFC copy on the image). Quick tier covers 16 of the 477 K' completely."),
 "C19": dict(level="exploration", design="5/C19", technique="complete grid T x Z x boundary-F x Al against a u128 acceptance predicate",
   text="Every T (thorough: all 65535) x every Z x every F adjacent to a limit (incl. F = 0), to a 2^32 multiple of the symbol count or of the per-block ceiling's numerator, or to a 2^16 multiple of the per-block count x alignment classes is passed to the real constructor under catch_unwind; accept/refuse must equal the documented predicate evaluated in u128 and accepted values must be echoed.",
   note="F off the boundary sets is not enumerated; limits are those documented on the constructor (errata 5548 and 4.4.1.2)."),
 "C01": dict(level="exploration", design="5/C01", technique="exhaustive subset-lattice exploration of a real Decoder (clone per branch) over a configuration box (sets in two orders and multisets), plus deviation-bounded histories over wide/tall shapes and all 954 block sizes; ground-truth oracle",
   text="Every subset (in canonical order, in reverse order, and in reverse order with every packet delivered twice) of a per-object packet universe is delivered to a real Decoder for every configuration of a box built around the code's case distinctions (F mod T, Z with KL!=KS, N with TL!=TS, padded short blocks); every answer must be None or the object, Some once all source packets are in. Wide shapes (T up to 24/64, every Al and N, up to 10/14 symbols, 6/8 blocks) and tall objects (every symbol count 11..130/330 with 2..4/6 blocks, so block sizes straddle every table size K') are driven through bounded deviations (one erased source symbol per block, interleaved blocks, a duplicate, three repair packets, the late packet; repair-only). All 477 K' and their min-K partners are driven through erasure/repair histories.",
   note="One data pattern per configuration (other contents by linearity, C09); full subset enumeration only for Kt<=4."),
 "C02": dict(level="model_checking", design="5/C02", technique="state-graph exploration (DFS over clones of the real SourceBlockDecoder, one packet per transition) with an independent GF(256) rank oracle evaluated on every node; erasure-bounded",
   text="The state graph of a real block decoder under all deliveries of subsets of a packet universe (bounded number of erased source symbols, every subset of H+4 near and 4 far repair symbols) is explored on clones; at every node the answer must equal [all source present or rank = L] computed by an independent incremental echelon basis over the RFC constraint matrix, and bytes must be the data; every node with at least K+3 symbols is additionally handed to a fresh decoder in one call (one attempt that sees all the overhead at once). Counts of legitimate failures, fast-path entries and forced fall-backs prove non-vacuity. Also run in the debug-assertions build.",
   note="Reference tables transcribed from the pinned commit. Canonical arrival order per node (order independence is C08). Large K only with fixed erasure patterns."),
 "C03": dict(level="exploration", design="5/C03 and section 7", technique="complete enumeration of all (K+h)-subsets, h in {0,1,2}, of fixed finite universes with exact failure counts and a rank oracle",
   text="Bounded version of a statistical claim: for fixed universes every subset of size K, K+1, K+2 (not containing all source symbols) is decoded by the real decoder; every (K+1)- and (K+2)-subset is also delivered in two calls (the outcome may depend on the set only); each failure must be a genuine rank deficiency, and the exact aggregate failure fractions must satisfy the property's thresholds (<1%, <0.01%, <0.001%) and be non-increasing.",
   note="Decides the property only for the listed finite universes (no sampling, no estimate of the distribution over all 2^24 symbols and all K)."),
 "C08": dict(level="model_checking", design="5/C08", technique="explicit-state exploration to closure: nodes = (real decoder object, delivered packet set), edges = one decode() call with one packet or any ordered pair/triple; exact canonical key confirmed by ==; abstract set model as oracle; both object-level interfaces in lock-step",
   text="All (decoder object, delivered set) states reachable by calling decode() with any universe packet at any time (any order, multiplicity, continuation after completion, block interleaving) and, on the small universes, with any ordered pair or triple in one call (any mix of batched and single delivery) are enumerated to closure; on every transition the answer must equal the abstract answer of the delivered set (fresh decoder, packet by packet, cross-checked against one call), bytes must be the data, the anchored counting invariant must hold and decode() must agree with add_new_packet()+get_result(). Only observable results are judged: an object that differs after a batch or after the other interface is explored as a further state. Block universes include sub-blocked configurations (N>1).",
   note="Closure is relative to fixed packet universes (K in {1,2,3,4,5,10,12}, (T,N,Al) up to (12,5,1), objects with Z in {2,3})."),
 "C04": dict(level="exploration", design="5/C04", technique="complete enumeration over all 477 block sizes / whole repair streams against an independent RFC 6330 reference (tuples, constraint matrix, certificate of intermediate symbols, packets, independent Gaussian solve)",
   text="Five layers, each a complete enumeration of its box against rfcref: tuples, the constraint matrix entry by entry for every K', a certificate check of the encoder's intermediate symbols for all 954 (K', min-K) sizes, every source/near/far repair packet against Enc[K',C,Tuple], whole 2^24-K repair streams, and an independent solve for every K<=300.",
   note="Trusted base: V0-V3, Table 2, degree table transcribed from the pinned commit. T in {1,3} here; other symbol sizes are lifted by C09."),
 "C05": dict(level="exploration", design="5/C05", technique="complete enumeration of a configuration box (F,T,Z,N,Al) against a reference layout map, plus Partition[I,J] grid",
   text="Every configuration of the box is encoded by the real Encoder and every payload byte of every source packet is compared with an RFC-written map (SBN,ESI,byte)->object offset/padding; a Decoder must invert it; partition() is compared on a complete grid.",
   note="Box bounds: complete F range for T<=10 (Kt<=8, Z<=4) and T in {1,2,3,4,6} (Kt<=14, Z<=7); wide box T<=64 with every Al|T and every N, Kt<=12 (16), Z<=7 (9), F at the five remainders that matter; larger shapes only encode-only at selected sizes."),
 "C06": dict(level="exploration", design="5/C06", technique="complete product over all 477 K' x {K', min K} x {dense, sparse} x {direct, plan replay}, certificate check by the reference model; repeated in the debug-assertions build",
   text="For every block size the encoder is built in all four variants on the real code; all variants must succeed, agree, and satisfy every LDPC/HDPC/LT relation evaluated by the reference model. The thorough tier is the complete product (exhaustive over the finite set of block sizes).",
   note="Quick tier restricts the dense back-end to K'<=700 and the minimum-K partner to K'<=1100. Checked-profile runs stop at K'=1100 (cubic self-checks)."),
 "C16": dict(level="model_checking", design="5/C16", technique="bounded exhaustive exploration of admissible operation sequences on real dense + sparse matrices against a plain-array model (exact dedup on the objects' Hash/Eq), plus lock-step traces of the real solver over a forwarding BinaryMatrix implementation",
   text="All admissible sequences (depth 3 quick / 4 thorough; depth 4 for the 6-row shapes in the quick tier) of interface operations over boundary alphabets from seeds whose dense tails cross the 64-bit word boundary are applied to a real DenseBinaryMatrix, a real SparseBinaryMatrix and a 2-D array with undefined cells; all cells and all queries must agree in every state. The real solver is additionally run on a matrix that forwards every call to both implementations and the model, for encoding (K'<=101 quick / 500 thorough) and decoding traces, in release and debug-assertions builds.",
   note="Admissibility = preconditions read off the code; matrices whose dense tail was dropped are only exercised with get/set/swap/add/resize."),
 "C17": dict(level="model_checking", design="5/C17", technique="loom DPOR exploration of all interleavings of real threads on the real cache code (shadow manifest over /repo/src), plus explicit-state exploration of request histories on the real global cache (policy-agnostic invariants, time-limited requests) and exhaustive confusable-size pairs",
   text="Eleven loom harnesses (same size, overlapping sizes, insert races eviction, hit races eviction, double eviction, sizes on the far side of the 250-symbol back-end threshold, large+small at capacity; 2-4 threads; unbounded DPOR where feasible, preemption bound 2-4 otherwise) run the real SourceBlockEncoder::new against the real cache compiled with loom primitives; every execution checks transparency and the cache invariants. Request histories (nodes = histories replayed on a cleared cache, merged on equal real contents; alphabet relative to the contents plus large sizes; seed prefixes around the capacity incl. full caches of large, re-requested plans) are explored to a depth bound; every request runs under a time limit (a call that never returns is a violation) and no eviction policy is assumed. Every ordered pair of confusable block sizes (rows sharing the systematic index, neighbouring rows, sizes padded to the same K') is requested on an empty cache in child processes. Beside these exhaustive parts a non-exhaustive monitor (6 free-running OS threads against references) is run whose failures, not its silence, count.",
   note="<= 4 threads; std Mutex internals trusted; loom only sees synchronisation routed through the hook's cfg-switched imports; loom failure replay = deterministic re-exploration of the named model.", engine="rqcheck+rqloom"),
 "C18": dict(level="exploration", design="5/C18", technique="complete enumeration of windows (s,n), whole repair streams and plan instances; differential oracle (window vs singles, plan vs plan)",
   text="All windows with s+n<=24, long windows around every length at which a strategy could switch (L, K', K, 2L, 64, 256, 1000) and the windows at the 2^24 end for every K of the ladder, two complete 2^24-K streams under two tilings, six ways of obtaining an encoder per K, the same requests repeated in other orders on the same encoder objects, the per-object packet list over a configuration box, and every block of every object (box and tall objects with every symbol count 2..330/1300 in 2..5/7 blocks) against a stand-alone block encoder and an encoder with a freshly generated plan for the same bytes.",
   note="Requests beyond ESI 2^24-1 are outside the property and not judged."),
 "C07": dict(level="exploration", design="5/C07", technique="complete enumeration of the configuration lattice (4 builds x kernel family x threshold x plan mode) with a differential digest oracle",
   text="Every configuration that exists on this host (in the quick tier: {release, debug-assertions+overflow-checks} x {std, no_std} x {auto/AVX-512, AVX2, SSSE3, portable} forced through the dispatchers x sparse threshold {0,250,inf} x {cache cold/warm, explicit plan, unplanned}, plus the release/std workload on one thread in ascending and in descending item order) runs the same workload; packets, decode outcomes and decoded bytes must be identical for every item, including a rank-deficient set and a set that forces the fast path to fall back.",
   note="NEON, non-x86 targets and other compilers cannot run here. Workload: K ladder x 4 symbol sizes x 2 data patterns plus every K of a contiguous range (1..170 release / 1..110 debug-assertions; 700 / 330 thorough); the debug-assertions builds run the reduced set (cubic self-checks)."),
 "C09": dict(level="exploration", design="5/C09", technique="complete grid K x T (every residue of the kernel strides) x kernel family x plan mode with metamorphic linearity/column-independence relations, plus a sweep over every symbol size",
   text="For every symbol size 1..=160 (192 thorough) and boundary sizes, every kernel family and three ways of building the encoder: byte j of every packet equals the 1-byte packet of column j for every j; additivity for all data pairs; homogeneity for all 256 scalars; decode per T. T sweep: every T up to 16600 (thorough: every T up to 65535) and powers of two +-{0,1,2,100}, one encode per T with byte columns carrying fixed patterns, and with structured (zero / constant / periodic) symbols.",
   note="Quick tier: T above 16600 only around powers of two; data alphabet {pos, lcg, unit0, ff, structured symbols} lifted by linearity itself."),
 "C10": dict(level="exploration", design="5/C10", technique="exhaustive enumeration of the finite domain (256^2 pairs, 256^3 triples, all table entries) against a shift-and-xor reference",
   text="Complete enumeration of the whole finite input domain of the field arithmetic and of every derived table entry against an independent polynomial-arithmetic reference; exhaustive, so the property is decided outright for this build.",
   note="Trusts only the field polynomial 0x11D / generator 2 (the reference checks that 2 generates all 255 units)."),
}
ALL = ["C%02d" % i for i in range(1, 20)]
PENDING_REASON = "check not built yet in this commit (work in progress; see DESIGN.md section 5 for the planned bounded-exhaustive check)"

def main():
    hooks = subprocess.run(["git", "-C", "/repo", "log", "--format=%H %s"], capture_output=True, text=True).stdout.splitlines()
    hook_commits = [l.split()[0] for l in hooks if " verif hooks:" in " " + l.split(" ", 1)[1] or l.split(" ", 1)[1].startswith("verif hooks")]
    m = {
      "version": 1,
      "setup_cmd": "./check setup",
      "hooks": {
        "guard": "--cfg raptorq_verif (plus --cfg raptorq_verif_loom for the loom build of C17)",
        "enable": "each harness workspace sets rustflags = [\"--cfg\", \"raptorq_verif\"] in its .cargo/config.toml and depends on raptorq by path = /repo, so every check rebuilds /repo's working tree with hooks on",
        "baseline_off_cmd": "./check baseline-off",
        "source_commits": hook_commits,
        "add_only": True,
      },
      "engines": [
        {"name": "rqcheck", "path": "harness/", "serves_properties": sorted(CHECKS), "kind_free_text": "own bounded-exhaustive explorers (state-graph DFS/BFS over clones of the real objects, subset lattices, complete grids / finite domains) with an independent RFC 6330 reference model (harness/src/rfcref.rs) run in lock-step; release and debug-assertions+overflow-checks profiles; page-heap allocator for C12"},
        {"name": "rqloom", "path": "harness-loom/", "serves_properties": ["C17"], "kind_free_text": "loom 0.7 (DPOR, controlled scheduler) over the real plan-cache code: shadow manifest compiles /repo/src/lib.rs with loom's Mutex/Arc/lazy_static"},
        {"name": "rqnostd", "path": "harness-nostd/", "serves_properties": ["C07"], "kind_free_text": "digest workload against the no_std build of the library (release and checked profiles)"},
      ],
      "checks": [],
      "not_applicable": [],
      "notes": "Driver: ./check <ID> [--tier quick|thorough] [--replay FILE]; exit 0/1/2 as in DESIGN.md section 2. known_findings.txt lists genuine defects (fixed: lines suppress nothing).",
    }
    for pid in ALL:
        if pid in CHECKS:
            c = CHECKS[pid]
            m["checks"].append({
              "property_id": pid,
              "quick_cmd": "./check %s --tier quick" % pid,
              "thorough_cmd": "./check %s --tier thorough" % pid,
              "evidence_file": "/verif/evidence/%s.json" % pid,
              "replay_cmd_template": "./check %s --replay {path}" % pid,
              "engine": c.get("engine", "rqcheck"),
              "level_claimed": {"category": c["level"], "text": c["text"], "design_ref": "DESIGN.md section " + c["design"]},
              "level_note": c["note"],
              "technique": c["technique"],
            })
        else:
            m["not_applicable"].append({"property_id": pid, "reason": PENDING_REASON})
    json.dump(m, open("/verif/MANIFEST.json", "w"), indent=1)
    print("checks:", len(m["checks"]), "n/a:", len(m["not_applicable"]))

main()
