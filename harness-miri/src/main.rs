//! rqmiri: fixed replays for the aliasing half of C12, run under Miri (stacked borrows):
//! the slab's paired borrow for every (dest, src) pair of small slabs, the unaligned 64-bit tail loops of the
//! portable kernels at every length 0..=40 and offset 0..=8, the unchecked table look-ups, and one small
//! encode + decode. Exit code 0 and no Miri diagnostic = pass.
use raptorq::verif::{add_assign, fused_addassign_mul_scalar, mulassign_scalar, Octet};
use raptorq::{ObjectTransmissionInformation as Oti, SourceBlockDecoder, SourceBlockEncoder, SymbolSlab};

fn main() {
    let mut cases = 0u64;
    // (1) slab pair grid, complete for sizes <= 3 symbols x 9 bytes
    for count in 1..=3usize {
        for size in 0..=9usize {
            for mapping in 0..2 {
                for dest in 0..count {
                    for src in 0..count {
                        if dest == src {
                            continue;
                        }
                        let mut slab = SymbolSlab::with_zeros(count, size);
                        for i in 0..count {
                            for (j, b) in slab.get_mut(i).iter_mut().enumerate() {
                                *b = (i * 31 + j * 7 + 1) as u8;
                            }
                        }
                        if mapping == 1 {
                            slab.set_reorder((0..count).rev().collect());
                        }
                        let before: Vec<Vec<u8>> = (0..count).map(|i| slab.get(i).to_vec()).collect();
                        slab.add_assign(dest, src);
                        slab.fma(dest, src, &Octet::new(0x53));
                        slab.mulassign_scalar(dest, &Octet::new(7));
                        for i in 0..count {
                            if i != dest {
                                assert_eq!(slab.get(i), &before[i][..]);
                            }
                        }
                        cases += 1;
                    }
                }
            }
        }
    }
    // (2) byte kernels at every small length and offset (Miri executes the portable / SSE2-level paths)
    let buf_a: Vec<u8> = (0..64u32).map(|i| (i * 37 + 11) as u8).collect();
    let buf_b: Vec<u8> = (0..64u32).map(|i| (i * 101 + 3) as u8).collect();
    for len in 0..=40usize {
        for off in 0..=8usize {
            let mut d = buf_a.clone();
            add_assign(&mut d[off..off + len], &buf_b[1..1 + len]);
            for i in 0..len {
                assert_eq!(d[off + i], buf_a[off + i] ^ buf_b[1 + i]);
            }
            let mut d = buf_a.clone();
            fused_addassign_mul_scalar(&mut d[off..off + len], &buf_b[2..2 + len], &Octet::new(0x1D));
            let mut e = buf_a.clone();
            mulassign_scalar(&mut e[off..off + len], &Octet::new(0x1D));
            for i in 0..len {
                let want = (Octet::new(buf_b[2 + i]) * Octet::new(0x1D)).byte() ^ buf_a[off + i];
                assert_eq!(d[off + i], want);
                assert_eq!(e[off + i], (Octet::new(buf_a[off + i]) * Octet::new(0x1D)).byte());
            }
            cases += 3;
        }
    }
    // (3) one encode + decode (K = 3, T = 9: 8-byte loop plus 1-byte tail)
    let k = 3u32;
    let t = 9u16;
    let data: Vec<u8> = (0..(k as usize * t as usize)).map(|i| (1 + (37 * i + 11) % 251) as u8).collect();
    let cfg = Oti::new(data.len() as u64, t, 1, 1, 1);
    let enc = SourceBlockEncoder::new(0, &cfg, &data);
    let mut pk = enc.source_packets();
    pk.remove(0);
    pk.extend(enc.repair_packets(0, 2));
    let mut dec = SourceBlockDecoder::new(0, &cfg, data.len() as u64);
    let out = dec.decode(pk);
    assert_eq!(out.as_deref(), Some(&data[..]));
    cases += 1;
    println!("MIRI-OK cases={}", cases);
}
