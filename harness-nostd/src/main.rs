//! rqnostd: the C07 digest workload against raptorq built with default-features = false (no_std library build)
#[path = "../../harness/src/digest.rs"]
mod digest;

fn main() {
    let args: Vec<String> = std::env::args().skip(1).collect();
    let tag = if cfg!(debug_assertions) { "checked/no_std" } else { "release/no_std" };
    digest::child_main(tag, &args);
}
