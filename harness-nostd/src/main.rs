//! rqnostd: workloads against raptorq built with default-features = false (no_std library build):
//!   rqnostd --items ... --special ...      C07 digest workload
//!   rqnostd --kernel-grid <max_len>        C11 kernel grid through the public dispatchers (real portable path)
#[path = "../../harness/src/digest.rs"]
mod digest;
#[path = "../../harness/src/nostd_grid.rs"]
mod nostd_grid;

fn main() {
    let args: Vec<String> = std::env::args().skip(1).collect();
    let tag = if cfg!(debug_assertions) { "checked/no_std" } else { "release/no_std" };
    if args.first().map(|s| s.as_str()) == Some("--kernel-grid") {
        let max_len: usize = args.get(1).and_then(|s| s.parse().ok()).unwrap_or(320);
        nostd_grid::main_grid(tag, max_len);
        return;
    }
    digest::child_main(tag, &args);
}
