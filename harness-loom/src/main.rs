//! rqloom: exhaustive interleavings (loom DPOR) of real threads running the real plan-cache code of
//! cberner/raptorq. One model per invocation: `rqloom <L1..L6> [preemption_bound]`.
//! A failing execution panics/aborts this process: the parent treats any non-zero exit as the verdict
//! and the printed message as the schedule description.
use loom::thread;
use raptorq::verif::{verif_plan_cache_capacity, verif_plan_cache_snapshot};
use raptorq::{ObjectTransmissionInformation as Oti, SourceBlockEncoder, SourceBlockEncodingPlan};
use std::sync::atomic::{AtomicU64, Ordering};
use std::sync::Arc;

static EXECUTIONS: AtomicU64 = AtomicU64::new(0);
static EVICTIONS_SEEN: AtomicU64 = AtomicU64::new(0);
static OUTCOMES: std::sync::Mutex<Vec<String>> = std::sync::Mutex::new(Vec::new());

fn data_for(k: u16) -> Vec<u8> {
    (0..k as usize).map(|i| (1 + (37 * i + 11 + k as usize) % 251) as u8).collect()
}

fn cfg_for(k: u16) -> Oti {
    Oti::new(k as u64, 1, 1, 1, 1)
}

/// what a single thread would build without any cache
fn reference(k: u16) -> SourceBlockEncoder {
    let plan = SourceBlockEncodingPlan::generate(k);
    SourceBlockEncoder::with_encoding_plan(0, &cfg_for(k), &data_for(k), &plan)
}

fn check_encoder(k: u16, enc: &SourceBlockEncoder, refs: &[(u16, SourceBlockEncoder)]) {
    let r = &refs.iter().find(|x| x.0 == k).expect("reference").1;
    assert!(enc == r, "VIOLATION-DETAIL: encoder for K={} built through the shared cache differs from the encoder built from a fresh plan", k);
    assert!(enc.repair_packets(0, 4) == r.repair_packets(0, 4), "VIOLATION-DETAIL: repair packets for K={} differ", k);
}

fn check_cache(context: &str) {
    let (order, plans) = verif_plan_cache_snapshot();
    let cap = verif_plan_cache_capacity();
    assert!(plans.len() <= cap, "VIOLATION-DETAIL: {}: cache holds {} plans, capacity {}", context, plans.len(), cap);
    let mut sorted = order.clone();
    sorted.sort_unstable();
    let n = sorted.len();
    sorted.dedup();
    assert!(sorted.len() == n, "VIOLATION-DETAIL: {}: insertion_order {:?} contains a duplicate (plans {:?})", context, order, plans.iter().map(|p| p.0).collect::<Vec<_>>());
    let keys: Vec<u16> = plans.iter().map(|p| p.0).collect();
    assert!(sorted == keys, "VIOLATION-DETAIL: {}: insertion_order {:?} does not list exactly the keys of plans {:?}", context, order, keys);
    for (key, count) in &plans {
        assert!(key == count, "VIOLATION-DETAIL: {}: plan stored under key {} was generated for {} symbols", context, key, count);
    }
}

struct Spec {
    prefill: Vec<u16>,
    threads: Vec<Vec<u16>>,
}

fn spec(name: &str) -> Spec {
    let cap = 64u16;
    match name {
        // two threads, same size
        "L1" => Spec { prefill: vec![], threads: vec![vec![10], vec![10]] },
        // three threads, same size
        "L2" => Spec { prefill: vec![], threads: vec![vec![10], vec![10], vec![10]] },
        // 2 x 2 requests, overlapping sizes in opposite order
        "L3" => Spec { prefill: vec![], threads: vec![vec![10, 12], vec![12, 10]] },
        // cache pre-filled to capacity-1, two threads with two new sizes: insert races evict
        "L4" => Spec { prefill: (1..cap).collect(), threads: vec![vec![100], vec![101]] },
        // as L4, three threads, one repeating a size
        "L5" => Spec { prefill: (1..cap).collect(), threads: vec![vec![100], vec![101], vec![100]] },
        // pre-filled to capacity: one thread re-requests the oldest size while another inserts a new one
        "L6" => Spec { prefill: (1..=cap).collect(), threads: vec![vec![1], vec![100]] },
        // two threads, two different new sizes each, at capacity: double eviction
        "L7" => Spec { prefill: (1..=cap).collect(), threads: vec![vec![100, 2], vec![101, 1]] },
        // three threads, same LARGE size (at and above the sparse-matrix threshold of 250 symbols the plan is
        // generated on the other matrix back-end; any size-dependent path in the cache is on this side)
        "L8" => Spec { prefill: vec![], threads: vec![vec![257], vec![257], vec![257]] },
        // two large sizes in flight at once, one of them requested twice
        "L9" => Spec { prefill: vec![], threads: vec![vec![257], vec![300], vec![257]] },
        // four threads, two small sizes, crossing requests
        "L10" => Spec { prefill: vec![], threads: vec![vec![10], vec![12], vec![10], vec![12]] },
        // large and small mixed at capacity-1: eviction races with a slow large generation
        "L11" => Spec { prefill: (1..cap).collect(), threads: vec![vec![257], vec![100], vec![257]] },
        _ => panic!("unknown model {}", name),
    }
}

fn main() {
    let args: Vec<String> = std::env::args().collect();
    let name = args.get(1).cloned().unwrap_or_else(|| "L1".into());
    let bound: Option<usize> = args.get(2).and_then(|s| s.parse().ok());
    let sp = spec(&name);
    // references are computed outside the model (no cache involved)
    let mut ks: Vec<u16> = sp.threads.iter().flatten().copied().collect();
    ks.sort_unstable();
    ks.dedup();
    let refs: Arc<Vec<(u16, SourceBlockEncoder)>> = Arc::new(ks.iter().map(|&k| (k, reference(k))).collect());
    let mut b = loom::model::Builder::new();
    b.preemption_bound = bound;
    b.max_branches = 1_000_000;
    let sp = Arc::new(sp);
    let t0 = std::time::Instant::now();
    b.check(move || {
        EXECUTIONS.fetch_add(1, Ordering::Relaxed);
        for &k in &sp.prefill {
            let _ = SourceBlockEncoder::new(0, &cfg_for(k), &data_for(k));
        }
        let before = verif_plan_cache_snapshot().0;
        let handles: Vec<_> = sp
            .threads
            .iter()
            .cloned()
            .map(|reqs| {
                let refs = refs.clone();
                thread::spawn(move || {
                    for k in reqs {
                        let enc = SourceBlockEncoder::new(0, &cfg_for(k), &data_for(k));
                        check_encoder(k, &enc, &refs);
                        check_cache("after a thread's own request");
                    }
                })
            })
            .collect();
        for h in handles {
            h.join().unwrap();
        }
        check_cache("after all threads joined");
        let (order, _) = verif_plan_cache_snapshot();
        if before.iter().any(|k| !order.contains(k)) {
            EVICTIONS_SEEN.fetch_add(1, Ordering::Relaxed);
        }
        // distinct final cache contents (tail of the insertion order) = distinct observed outcomes
        let tail: Vec<u16> = order.iter().rev().take(4).rev().copied().collect();
        let s = format!("{:?}", tail);
        let mut o = OUTCOMES.lock().unwrap();
        if !o.contains(&s) && o.len() < 32 {
            o.push(s);
        }
    });
    let outcomes = OUTCOMES.lock().unwrap().clone();
    println!(
        "LOOM-RESULT model={} preemption_bound={} executions={} executions_with_eviction={} distinct_final_orders={} outcomes={:?} threads={:?} prefill={} wall_s={:.2}",
        name,
        bound.map(|b| b.to_string()).unwrap_or_else(|| "none".into()),
        EXECUTIONS.load(Ordering::Relaxed),
        EVICTIONS_SEEN.load(Ordering::Relaxed),
        outcomes.len(),
        outcomes,
        spec(&name).threads,
        spec(&name).prefill.len(),
        t0.elapsed().as_secs_f64()
    );
}
