#!/usr/bin/env python3-vt
import json, jsonschema, glob, sys
m = json.load(open('/verif/MANIFEST.json'))
jsonschema.validate(m, json.load(open('/root/.vp/MANIFEST.schema.json')))
es = json.load(open('/root/.vp/EVIDENCE.schema.json'))
bad = 0
for c in m['checks']:
    f = c['evidence_file']
    try:
        e = json.load(open(f))
        jsonschema.validate(e, es)
        assert e['level'] == c['level_claimed']['category'], (e['level'], c['level_claimed']['category'])
        print(c['property_id'], 'ok', e['tier'], e['wall_s'], 'evals', e['coverage'].get('evaluations'), 'nontriv', e['coverage'].get('distinct_nontrivial'), 'states', e['coverage'].get('states'))
    except Exception as ex:
        bad += 1
        print(c['property_id'], 'BAD', str(ex)[:300])
ids = [c['property_id'] for c in m['checks']] + [n['property_id'] for n in m.get('not_applicable', [])]
assert sorted(ids) == ['C%02d' % i for i in range(1, 20)], ids
sys.exit(1 if bad else 0)
